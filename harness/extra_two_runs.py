"""Beyond the listed properties: replay of the counterexample TLC finds in spec/extra/TwoRuns.tla (two concurrent edit
runs hand out the same IDs) on the real binary.  Not a registered check: a hazard report (DESIGN.md section 10).

  python3 harness/extra_two_runs.py      -> prints what happened; exit 0 always (1 only on tool errors)"""
import os
import signal
import subprocess
import sys
import re

sys.path.insert(0, os.path.dirname(os.path.abspath(__file__)))
import bl
import common


def main():
    r = common.run_tlc("TwoRuns.tla", "TwoRuns.cfg", workers=2, coverage=False, cwd=os.path.join(common.SPEC, "extra"))
    print("TLC on TwoRuns.cfg: invariant violated = %s (expected GlobalUnique)" % r.violated)
    r2 = common.run_tlc("TwoRuns.tla", "TwoRunsLocked.cfg", workers=2, coverage=False, cwd=os.path.join(common.SPEC, "extra"))
    print("TLC on TwoRunsLocked.cfg (advisory lock held for the whole run): violated = %s, %d distinct states (expected none)" % (
        r2.violated, r2.distinct))
    binary = common.build_breadlog()
    so = common.build_shim()
    P = bl.Project(tag="two")
    try:
        P.write_sources({"f1.rs": 'fn a() {\n    info!("one");\n}\n', "f2.rs": 'fn b() {\n    info!("two");\n}\n'})
        P.set_lock(5)
        env = {k: v for k, v in os.environ.items() if not k.startswith("FSSHIM_")}
        env.update({"RUST_BACKTRACE": "0", "TMPDIR": P.tmp, "LD_PRELOAD": so, "FSSHIM_ROOTS": P.proj + ":" + P.tmp,
                    "FSSHIM_LOG": os.path.join(P.root, "a.ndjson"),
                    # run A stops itself right before opening its second source file
                    "FSSHIM_PLAN": "op=open,path=.rs,nth=2:signal=%d" % signal.SIGSTOP})
        a = subprocess.Popen([binary, "-c", P.config_path], env=env, stdout=subprocess.PIPE, stderr=subprocess.PIPE)
        pid, status = os.waitpid(a.pid, os.WUNTRACED)
        if not os.WIFSTOPPED(status):
            print("run A did not stop as planned (status %s)" % status)
            return 1
        b = bl.run_breadlog(binary, P.config_path, tmpdir=P.tmp, roots=(), shim=False)
        os.kill(a.pid, signal.SIGCONT)
        a.wait(timeout=60)
        files = P.read_sources()
        ids = {n: re.findall(rb"\[ref: (\d+)\]", d) for n, d in files.items()}
        print("run A exit %s, run B exit %s, lock %s" % (a.returncode, b.exit_class, P.get_lock()))
        print("references on disk:", {n: [int(x) for x in v] for n, v in ids.items()})
        allids = [int(x) for v in ids.values() for x in v]
        if len(allids) != len(set(allids)):
            print("HAZARD REPRODUCED: two concurrent edit runs wrote the same ID for different statements")
        else:
            print("not reproduced")
        return 0
    finally:
        P.close()
        common.cleanup_private_binaries()


if __name__ == "__main__":
    sys.exit(main())
