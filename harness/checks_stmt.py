TABLE = {}
