"""Statement-level property checks (C03, C09-C15, C17): TLC enumerates the feature space of a specification module
and checks its invariants; every enumerated case is rendered and executed on the real binary; the observed outcome
per statement is compared with the specification's."""
import json
import multiprocessing
import os
import random
import re

import bl
import common
import stmt as st
from common import Verdict, run_tlc, require_tlc_ok, log, ToolError
from checks_run import tlc_dump

PACK = 700


def tlc_cases(v, cfg, module="MCStmt.tla", tag="CASE", need=()):
    r = run_tlc(module, cfg, workers=min(8, common.NCPU), coverage=False, timeout=3000, xmx="12g")
    if not r.ok:
        raise ToolError("TLC on %s failed: violated=%s error=%s\n%s" % (cfg, r.violated, r.error, r.out[-1500:] if not r.violated else ""))
    v.add_tlc(r, cfg)
    cases = tlc_dump(r, tag)
    log("[tlc] %s: %d distinct states, %d cases dumped, %.1fs" % (cfg, r.distinct, len(cases), r.wall))
    return cases


SKIP_REST = multiprocessing.Value("i", 0)      # set when enough groups of files have made the program hang or die


def _obs_job(job):
    binary, packs, structured, macros = job
    if SKIP_REST.value:
        return None
    res, runs = st.observe_pack(binary, packs, structured, macros=(macros if macros is not None else bl.DEFAULT_MACROS))
    bad = {}
    for name, r in runs.items():
        if r.exit_class in ("panic", "timeout", "signal", "killed"):
            bad[name] = (r.exit_class, r.stderr[-300:])
    return res, bad, {k: r.exit_class for k, r in runs.items()}


def classify_problem(r, text, structured):
    """Which property does a mismatch speak about?"""
    if r is None:
        if "pure insertion" in text:
            return "C03"
        if "is not read back as one" in text:
            return ("C13", "C06")
        if "second --check" in text or "second edit" in text:
            return "C06"
        return "C11"
    s = r.case["s"]
    exp = r.case["outcome"]
    if "reported location" in text:
        return "C05"
    if exp == "none":
        return "C11"
    if exp == "ignored":
        return "C14"
    if exp in ("unusable", "untouched"):
        return "C13"
    if exp == "hasref":
        return "C13" if (structured and s["dir"] != "nokvp") else "C12"
    if exp == "missing":
        # a token of one style written where the other style belongs (a key-value token inside the message literal, a
        # message token among the arguments) is not one of the two insertions C03 allows
        style = ("C03",) if ("token b'ref = " in text and "expected b'[ref: " in text) or ("token b'[ref: " in text and "expected b'ref = " in text) else ()
        if s["dir"] == "nokvp":
            return ("C14",) + style if style else "C14"
        if structured and ("token" in text or "key-value inserted" in text):
            return ("C13", "C10")        # placement / terminator of the structured reference: both properties state it
        if structured and s["msg"] in ("validref", "validref0", "validrefmax"):
            return ("C13", "C10")        # in structured mode the reference is the key-value; a token in the message does not count
        if s["msg"] == "custom":
            return ("C12", "C10")
        return "C10"
    return "C10"


def make_packs(cases, macroset=None):
    """Cases are dealt round-robin onto the files of their mode, so that every file holds the whole variety of the
    enumeration (real statements next to every kind of decoy, every layout, ...) rather than one homogeneous stretch of it."""
    bymode = {"structured": [], "unstructured": []}
    for c in cases:
        bymode[c["mode"]].append(c)
    packs = []
    uid = 1000
    for mode, cs in bymode.items():
        npacks = (len(cs) + PACK - 1) // PACK
        for k in range(npacks):
            pk = st.Pack("p_%s_%d.rs" % (mode[0], k), bom=(k % 4 == 1), crlf=(k % 3 == 2))
            for c in cs[k::npacks]:
                uid += 1
                pk.add(st.render_case(c, uid, macroset=macroset))
            pk.finish()
            packs.append((pk, mode == "structured"))
    return packs


def solo_packs(cases, n, macroset=None, seed_val=0):
    """Each chosen case alone in a file of its own: nothing else in the file can make (or unmake) its recognition.
    Returns a list of (list of packs, structured)."""
    import random
    bymode = {"structured": [], "unstructured": []}
    for c in cases:
        bymode[c["mode"]].append(c)
    groups = []
    uid = 500000
    for mode, cs in bymode.items():
        if not cs:
            continue
        rnd = random.Random(seed_val + len(cs))
        # a stride through the enumeration order (which varies the fastest-changing features) plus a random sample
        k = max(1, n // 2)
        stride = max(1, len(cs) // k)
        chosen = {i for i in range(0, len(cs), stride)} | set(rnd.sample(range(len(cs)), min(len(cs), n - min(n, k))))
        cur = []
        for j, i in enumerate(sorted(chosen)):
            uid += 1
            pk = st.Pack("solo_%s_%d.rs" % (mode[0], j), bom=(j % 7 == 3), crlf=(j % 5 == 1))
            pk.add(st.render_case(cs[i], uid, macroset=macroset))
            pk.finish()
            cur.append(pk)
            if len(cur) == 150:
                groups.append((cur, mode == "structured"))
                cur = []
        if cur:
            groups.append((cur, mode == "structured"))
    return groups


def run_cases(binary, cases, v, props, label, sigextra=None, packs=None, relabel=None, macros=None, solo=None, macroset=None,
              groups_extra=None):
    """Render, pack (per mode), execute, compare. Registers violations tagged with a property in `props`.
    Besides the packed files (many statements per file) a sample of the cases is run one statement per file."""
    packs_all = packs if packs is not None else make_packs(cases)
    groups = [([pk], structured) for pk, structured in packs_all]
    if cases is not None:
        if solo is None:
            solo = 400 if v.tier != "thorough" else 3000
        if solo:
            groups += solo_packs(cases, solo, macroset=macroset, seed_val=common.seed())
    if groups_extra:
        groups += groups_extra
    jobs = [(binary, pks, structured, macros) for pks, structured in groups]
    procs = max(2, min(common.NCPU - 2, 14))
    SKIP_REST.value = 0
    results, nbad = [], 0

    def take(res):
        nonlocal nbad
        results.append(res)
        if res is not None and res[1]:
            nbad += 1
            if nbad >= 8:
                SKIP_REST.value = 1      # the remaining groups add nothing (and each would wait for its time limit)
    if len(jobs) > 2:
        with multiprocessing.get_context("fork").Pool(procs) as pool:
            for res in pool.imap(_obs_job, jobs, chunksize=1):
                take(res)
    else:
        for j in jobs:
            take(_obs_job(j))
    kept = [(g, r) for g, r in zip(groups, results) if r is not None]
    groups, results = [g for g, _ in kept], [r for _, r in kept]
    nprob = 0
    flat = []
    for (pks, structured), (res, bad, exits) in zip(groups, results):
        for name, (cls, err) in bad.items():
            v.cov.setdefault("abnormal_terminations", []).append({"pack": pks[0].name, "run": name, "class": cls, "stderr": err})
            if "C17" in props:
                v.violation({"check": "NoPanicNoHang", "run": name, "family": label}, "breadlog %s in %s on pack %s: %s" % (cls, name, pks[0].name, err),
                            {"family": label, "file": pks[0].text[:20000]})
        v.cov["traces_validated_against_impl"] += 1
        for pk in pks:
            flat.append((pk, structured, res[pk.name]))
    for (pk, structured, res_pk) in flat:
        solo_file = pk.name.startswith("solo_")
        v.cov["cases_compared"] = v.cov.get("cases_compared", 0) + len(pk.items)
        if solo_file:
            v.cov["cases_alone_in_a_file"] = v.cov.get("cases_alone_in_a_file", 0) + 1
        problems, per = st.judge_pack(pk, res_pk, structured)
        for r in pk.items:
            v.evaluated((label, json.dumps(r.case, sort_keys=True)))
        for (r, text, o) in problems:
            prop = classify_problem(r, text, structured)
            if relabel:
                prop = relabel(prop, r, text)
            plist = prop if isinstance(prop, tuple) else (prop,)
            oo = v.cov.setdefault("mismatches_by_property", {})
            for p1 in plist:
                oo[p1] = oo.get(p1, 0) + 1
            hit = [p1 for p1 in plist if p1 in props]
            if not hit:
                continue
            prop = hit[0]
            nprob += 1
            sig = {"check": "StatementOutcome", "family": label, "structured": structured}
            if solo_file:
                sig["alone_in_file"] = True
            if r is not None:
                s = r.case["s"]
                sig.update({"head": s["head"], "target": s["target"] != "none", "msg": s["msg"], "layout": s["layout"],
                            "context": s["context"], "dir": s["dir"], "expected": r.case["outcome"],
                            "kvs": ",".join(s["kvs"])})
            else:
                sig["file_level"] = text[:60]
            if sigextra:
                sig.update(sigextra)
            v.violation(sig, "%s: %s%s" % (prop, text, ("  statement: %r" % r.text.strip()[:200]) if r is not None else ""),
                        {"case": r.case if r is not None else None, "statement": r.text if r is not None else None,
                         "structured": structured, "problem": text, "pack": pk.name,
                         "file": pk.text if solo_file else None})
        if pk.items and not solo_file:
            r0 = pk.items[len(pk.items) // 2]
            v.sample({"case": r0.case, "rendered": r0.text})
    return nprob


def c10(tier):
    v = Verdict("C10", tier)
    cases = tlc_cases(v, "intended/StmtLayoutQ.cfg" if tier != "thorough" else "intended/StmtLayoutT.cfg")
    binary = common.build_breadlog()
    n = run_cases(binary, cases, v, {"C10"}, "layout")
    # the same macro name configured under two modules, and a module path of several segments
    macros = (("log", "info"), ("tracing", "info"), ("log", "warn"), ("my::logger", "warn"), ("log", "error"))
    mset = {"info": ["log", "tracing"], "warn": ["log", "my::logger"], "error": "log"}
    sub = [c for c in cases if c["s"]["layout"] in ("space", "newline") and c["s"]["context"] in ("indent", "return")]
    run_cases(binary, None, v, {"C10"}, "layout-multimodule", packs=make_packs(sub, macroset=mset), macros=macros)
    v.cov["rule"] = ("every feature record TLC enumerates for the configuration (head x target x key-values x message class x "
                     "trailing arguments x inter-token layout x context before the statement x mode), rendered and packed "
                     "%d statements per file; distinct = feature record" % PACK)
    v.cov["exhaustive"] = True
    return v.finish()


def c11(tier):
    v = Verdict("C11", tier)
    cases = tlc_cases(v, "intended/StmtDecoyT.cfg" if tier == "thorough" else "intended/StmtDecoy.cfg")
    binary = common.build_breadlog()
    packs = make_packs(cases)
    # a comment on the last line of a file without a trailing newline, after real statements
    uid = 500000
    for mode in ("structured", "unstructured"):
        for head in ("linecomment", "doccomment", "blockcomment"):
            for nreal in (0, 2):
                pk = st.Pack("tail_%s_%s_%d.rs" % (mode[0], head, nreal))
                base = {"target": "none", "kvs": [], "msg": "plain", "dir": "none", "trailing": "none", "layout": "space",
                        "context": "indent"}
                for j in range(nreal):
                    uid += 1
                    pk.add(st.render_case({"s": dict(base, head="bare"), "mode": mode, "outcome": "missing",
                                           "sep": ";" if mode == "structured" else "msg"}, uid))
                uid += 1
                tail = st.render_case({"s": dict(base, head=head), "mode": mode, "outcome": "none", "sep": "msg"}, uid)
                pk.finish(tail=tail)
                packs.append((pk, mode == "structured"))
    run_cases(binary, cases, v, {"C11"}, "decoy", packs=packs)
    # a configured set with several modules and a custom macro: names of one module under another module are decoys
    macros = (("log", "info"), ("tracing", "warn"), ("my::logger", "error"))
    mset = {"info": "log", "warn": "tracing", "error": "my::logger"}
    cases2 = [c for c in cases if c["s"]["layout"] == "space" and c["s"]["context"] == "indent"]
    extra = []
    for c in cases2:
        if c["s"]["head"] == "qualified":
            s2 = dict(c["s"], head="crossmod")
            extra.append(dict(c, s=s2, outcome="none", place="nowhere", ref=-1))
    run_cases(binary, None, v, {"C11"}, "decoy-multimodule", packs=make_packs(cases2 + extra, macroset=mset), macros=macros)
    # an empty configured set: every macro name is unconfigured, nothing may be reported or edited
    none_cases = [dict(c, outcome="none", place="nowhere", ref=-1) for c in cases2 if c["s"]["head"] in ("bare", "qualified")]
    run_cases(binary, None, v, {"C11"}, "decoy-emptyset", packs=make_packs(none_cases), macros=())
    # block comments with extra stars around the closing delimiter
    extra2 = []
    for c in cases2:
        if c["s"]["head"] == "blockcomment":
            for h in ("starcomment", "bannercomment"):
                extra2.append(dict(c, s=dict(c["s"], head=h)))
    real = [c for c in cases2 if c["s"]["head"] in ("bare", "qualified")][:200]
    run_cases(binary, extra2 + real, v, {"C11"}, "decoy-starcomments")
    v.cov["rule"] = ("decoys (comments of three kinds, unconfigured / prefix / suffix / other-module names, no literal, no "
                     "arguments, macro text inside a string literal) enumerated by TLC together with real statements and packed in "
                     "enumeration order, plus files ending in a commented-out statement without trailing newline; distinct = record")
    v.cov["exhaustive"] = True
    return v.finish()


SYM = {"sp": " ", "d": "\u0663", "R": "R", "x": "x", "tab": "\t", "nl": "\n", "bc": "/* c */", "lc": "// c\n", "dfw": "\uff15", "nbsp": "\u00a0", "ideosp": "\u3000"}


def reftoken_cases(v, tier):
    toks = []
    for cfg in (("intended/RefTokenT.cfg" if tier == "thorough" else "intended/RefTokenQ.cfg"), "intended/RefTokenB.cfg",
                "intended/RefTokenS.cfg", "intended/RefTokenN.cfg", "intended/RefTokenW.cfg"):
        toks += tlc_cases(v, cfg, module="MCRefToken.tla", tag="TOK")
    cases = []
    base = {"head": "bare", "target": "none", "kvs": [], "msg": "custom", "dir": "none", "trailing": "none",
            "layout": "space", "context": "indent"}
    for t in toks:
        text = "".join(SYM.get(c, c) for c in t["w"])
        cases.append({"s": base, "mode": "unstructured", "msgtext": text, "outcome": "hasref" if t["valid"] else "missing",
                      "place": "message_start", "sep": "msg", "w": t["w"]})
    # the same strings under a no-kvp directive (which has no meaning in unstructured mode) and under an ignore directive
    for i, c in enumerate(list(cases)):
        if i % 5 == 0:
            cases.append(dict(c, s=dict(base, dir="nokvp")))
        elif i % 25 == 1:
            cases.append(dict(c, s=dict(base, dir="ignore"), outcome="ignored", place="nowhere"))
    return cases


def c12(tier):
    v = Verdict("C12", tier)
    cases = reftoken_cases(v, tier)
    # ref-like text elsewhere: later in the message, in a format argument, in a key-value string
    cases += tlc_cases(v, "intended/StmtRefLike.cfg")
    binary = common.build_breadlog()
    run_cases(binary, cases, v, {"C12"}, "reftoken")
    # tokens with 10-digit numbers: written by the tool itself and read back
    import runlevel as rl
    batch = rl.Batch()
    for structured in (False,):
        sc = rl.Scenario("ten-digit-ids", {"f1.rs": [rl.S(11), rl.S(12, ref=4294967280)], "f2.rs": [rl.S(21)]},
                         lock=2, base=4294967295 - 9, structured=structured)       # abstract lock 2 = 4294967288
        rl.planned_runs(binary, sc, [[("edit", ""), ("check", ""), ("edit", "")]], batch, v)
    for prop, name, meta, local, detail in batch.judge(v, set()):
        if prop in ("C06", "C01", "C03"):
            v.violation({"check": name, "family": "ten-digit-ids"}, "C12: a 10-digit token written by Breadlog is not read back: %s %s" % (name, detail[:200]),
                        {"scenario": meta.get("scenario_desc")})
    v.cov["rule"] = ("every string TLC reaches in RefToken (all strings of <= N symbols over a 13-symbol alphabet after each proper "
                     "prefix of '[ref: ', and numbers around 2^32 and the digit-count limits extended by <= 2 symbols) placed at the start "
                     "of a message literal; ref-like text in other places; 10-digit tokens written by the tool and read back")
    v.cov["exhaustive"] = True
    return v.finish()


def c13(tier):
    v = Verdict("C13", tier)
    cases = tlc_cases(v, "intended/StmtKv.cfg")
    if tier == "thorough":
        cases += tlc_cases(v, "intended/StmtKvT.cfg")
    r = run_tlc("MCStmt.tla", "asfound/StmtInsertPoint.cfg", workers=4, coverage=False)
    if r.violated not in ("RoundTrip", "StillAccepted"):
        raise ToolError("as-found insertion point not refuted by TLC: %s" % r.violated)
    v.cov.setdefault("expected_counterexamples", []).append({"cfg": "asfound/StmtInsertPoint.cfg", "violated": r.violated})
    binary = common.build_breadlog()
    run_cases(binary, cases, v, {"C13"}, "kv")
    run_cases(binary, tlc_cases(v, "intended/StmtKvLayout.cfg"), v, {"C13"}, "kv-layout")
    v.cov["rule"] = ("every key-value sequence up to the bound over the shape alphabet (values, shorthand, capture modifiers, strings "
                     "with ; and , and every form of an existing `ref` key) x target x message class x directive x both modes")
    v.cov["exhaustive"] = True
    return v.finish()


def directive_packs(v, tier, cfg_tier=None):
    """The files of Directives.tla: packed (250 cases per file) and a sample one case per file."""
    t = cfg_tier or tier
    cases = tlc_cases(v, "intended/DirectivesQ.cfg", module="Directives.tla", tag="DIR")
    if t == "thorough":
        cases += tlc_cases(v, "intended/DirectivesT.cfg", module="Directives.tla", tag="DIR")
    packs = []
    uid = 2000
    for mode in ("structured", "unstructured"):
        cs = [c for c in cases if c["mode"] == mode]
        for i in range(0, len(cs), 250):
            pk = st.Pack("d_%s_%d.rs" % (mode[0], i // 250))
            for c in cs[i:i + 250]:
                uid = st.render_directive_case(pk, c, uid)
            pk.finish()
            packs.append((pk, mode == "structured"))
    # a sample of the cases alone in a file of its own (a file whose only directive is spelled in upper case, ...)
    solo_groups = []
    rnd = random.Random(common.seed() + 14)
    for mode in ("structured", "unstructured"):
        cs = [c for c in cases if c["mode"] == mode and any(k in st.DIR_LINES for k in c["lines"])]
        rnd.shuffle(cs)
        cur = []
        for j, c in enumerate(cs[:(1500 if tier == "thorough" else 450)]):
            pk = st.Pack("solo_d_%s_%d.rs" % (mode[0], j), crlf=(j % 5 == 1))
            uid = st.render_directive_case(pk, c, uid)
            pk.finish()
            cur.append(pk)
            if len(cur) == 150:
                solo_groups.append((cur, mode == "structured"))
                cur = []
        if cur:
            solo_groups.append((cur, mode == "structured"))
    return packs, solo_groups


def ignored_is_invisible(binary, v):
    """A statement under breadlog:ignore is skipped: a project with such a statement (even one that carries a large
    reference) is numbered exactly like the same project without it - same IDs for the other statements, same lock."""
    import re as _re
    for structured in (False, True):
        for directive in ("// breadlog:ignore", "/* BREADLOG:IGNORE */"):
            for carried in ("", "500", "4000000000"):
                if structured:
                    ign = 'info!(%s"ignored one");' % (("ref = %s; " % carried) if carried else "")
                else:
                    ign = 'info!("%signored one");' % (("[ref: %s] " % carried) if carried else "")
                block = "    %s\n    %s\n" % (directive, ign)
                out = {}
                for with_block in (True, False):
                    P = bl.Project(structured=structured, tag="ig")
                    try:
                        P.write_sources({"a.rs": "fn a() {\n    info!(\"first\");\n%s    warn!(\"second\");\n}\n" % (block if with_block else ""),
                                         "b.rs": "fn b() {\n    error!(\"third\");\n}\n"})
                        r = bl.run_breadlog(binary, P.config_path, tmpdir=P.tmp, shim=False, timeout=60)
                        src = {k: d.decode("utf-8", "replace") for k, d in P.read_sources().items()}
                        ids = {}
                        for name in ("first", "second", "third"):
                            m = _re.search(r'(?:ref = (\d+)[;,] "|\[ref: (\d+)\] )' + name, src["a.rs"] + src["b.rs"])
                            ids[name] = (m.group(1) or m.group(2)) if m else None
                        out[with_block] = {"exit": r.exit_class, "ids": ids, "lock": P.get_lock(),
                                           "ignored_untouched": (block in src["a.rs"]) if with_block else True}
                    finally:
                        P.close()
                v.evaluated(("ignored-invisible", structured, directive, carried))
                a, b = out[True], out[False]
                if not a["ignored_untouched"] or (a["exit"], a["ids"], a["lock"]) != (b["exit"], b["ids"], b["lock"]):
                    v.violation({"check": "IgnoredIsInvisible", "structured": structured, "carried": carried or "none"},
                                "C14: a project with an ignored statement (%s, carrying %s) is numbered differently from the same "
                                "project without it: %s vs %s" % (directive, carried or "no reference", a, b),
                                {"with_ignored_statement": a, "without": b, "structured": structured, "directive": directive, "carried": carried})


def c14(tier):
    v = Verdict("C14", tier)
    binary = common.build_breadlog()
    ignored_is_invisible(binary, v)
    packs, solo_groups = directive_packs(v, tier)
    # in these files every statement is governed by the directive placement rules: any mismatch speaks about C14
    run_cases(binary, None, v, {"C14"}, "directives", packs=packs, relabel=lambda prop, r, text: "C14" if r is not None else prop,
              groups_extra=solo_groups)
    # the statement-level family with directives on statements that have targets and key-values
    cases2 = [c for c in tlc_cases(v, "intended/StmtKv.cfg") if c["s"]["dir"] != "none"]
    run_cases(binary, cases2, v, {"C14"}, "directives-kv")
    # ... and with every inter-token layout (a statement whose name, `!` and `(` are on different lines still starts on the
    # line of its name)
    cases3 = [c for c in tlc_cases(v, "intended/StmtKvLayout.cfg") if c["s"]["dir"] != "none"]
    run_cases(binary, cases3, v, {"C14"}, "directives-layout")
    v.cov["rule"] = ("every file of <= N lines over the 18-kind line alphabet of Directives.tla containing a statement, both modes, "
                     "packed with code lines in between; plus directives on statements with targets and key-values")
    v.cov["exhaustive"] = True
    return v.finish()


WCHAR = {1: "a", 2: "\u00e9", 3: "\u4e16", 4: "\U0001F980"}


def rewrite_packs(cases, per=400):
    """Rewrite.tla cases: unit widths + insertion points -> statements whose message literal starts exactly at the
    insertion points, with the units as (multi-byte) characters."""
    packs = []
    uid = 3000
    for mode in ("unstructured", "structured"):
        for i in range(0, len(cases), per):
            pk = st.Pack("r_%s_%d.rs" % (mode[0], i // per))
            for c in cases[i:i + per]:
                widths, pts = c["input"], sorted(c["points"])
                chars = [WCHAR[w] for w in widths]
                first = pts[0] if pts else len(chars)
                if first > 0:
                    pk.filler("    // " + "".join(chars[:first]) + "\n")
                for j, b in enumerate(pts):
                    e = pts[j + 1] if j + 1 < len(pts) else len(chars)
                    uid += 1
                    macro = st.MACROS[uid % 3]
                    body = "".join(chars[b:e])
                    r = st.Rendered()
                    prefix = "    "
                    r.text = prefix + macro + '!("' + body + '");'
                    r.case = {"s": {"head": "bare", "target": "none", "kvs": [], "msg": "units", "dir": "none", "trailing": "none",
                                    "layout": "tight", "context": "indent"}, "mode": mode, "outcome": "missing",
                              "sep": ";" if mode == "structured" else "msg", "units": widths, "points": pts}
                    r.uid, r.decoy, r.stmt_off = uid, False, len(prefix)
                    r.msg_off = len(prefix) + len(macro) + 3
                    r.kv_allowed = [len(prefix) + len(macro) + 2]
                    pk.add_inline(r)
                    pk.filler("\n")
                pk.filler("    let _sep%d = 0;\n" % uid)
            pk.finish()
            packs.append((pk, mode == "structured"))
    return packs


def corpus_step(binary, v, props, names=("fib-rs", "breadlog-src", "rocket")):
    """Real-code corpora through check, edit, check, edit; judged by Observe.tla (opaque trees) and by direct facts."""
    import corpus
    import runlevel as rl
    jobs = [(binary, common.REPO, n, s) for n in names for s in (False, True)]
    with multiprocessing.get_context("fork").Pool(min(len(jobs), 6)) as pool:
        facts = pool.map(corpus.run_corpus, jobs)
    batch = rl.Batch()
    for f in facts:
        batch.add_events(f["events"], {"scenario": "corpus-%s" % f["corpus"], "scenario_desc": {"corpus": f["corpus"], "structured": f["structured"]},
                                       "steps": ["check", "edit", "check", "edit"],
                                       "sig": {"mode": "corpus", "fault": "none", "structured": f["structured"], "corpus": f["corpus"]}})
        v.evaluated(("corpus", f["corpus"], f["structured"]))
        v.sample({"corpus": f["corpus"], "structured": f["structured"], "files": f["files"], "steps": f["steps"]})
        for mode, cls, err in f["abnormal"]:
            if "C17" in props:
                v.violation({"check": "NoPanicNoHang", "corpus": f["corpus"], "mode": mode}, "breadlog %s on corpus %s (%s): %s" % (cls, f["corpus"], mode, err), f["steps"])
        for prop, text in f["problems"]:
            if prop in props:
                v.violation({"check": "Corpus", "corpus": f["corpus"], "structured": f["structured"], "what": text[:40]}, "%s: %s" % (prop, text), f["steps"])
    batch.judge(v, props)


def c03(tier):
    v = Verdict("C03", tier)
    cases = tlc_cases(v, "intended/Rewrite.cfg" if tier == "thorough" else "intended/RewriteQ.cfg", module="Rewrite.tla", tag="REW")
    binary = common.build_breadlog()

    def relabel(prop, r, text):
        if r is not None and r.case["outcome"] == "hasref" and "insertions=[]" not in text:
            return "C03"
        return prop
    run_cases(binary, None, v, {"C03"}, "rewrite", packs=rewrite_packs(cases), relabel=relabel)
    # statements that already carry a reference, in every layout, must receive nothing; every edit is a pure insertion
    cases2 = tlc_cases(v, "intended/StmtLayoutQ.cfg")
    if tier != "thorough":
        rnd = random.Random(common.seed())
        rnd.shuffle(cases2)
        cases2 = cases2[:20000]
    run_cases(binary, cases2, v, {"C03"}, "layout", relabel=relabel)
    # statements that already carry a `ref` key-value among other key-values (shorthand keys, modifiers, strings)
    cases3 = tlc_cases(v, "intended/StmtKv.cfg")
    if tier != "thorough":
        rnd = random.Random(common.seed() + 3)
        rnd.shuffle(cases3)
        cases3 = cases3[:15000]
    run_cases(binary, cases3, v, {"C03"}, "kv", relabel=relabel)
    # malformed text
    hostile_step(binary, v, {"C03"}, "intended/HostileQ.cfg")
    # real code
    corpus_step(binary, v, {"C03"})
    # thousands of statements in one file, LF and CRLF, crossing write-cache boundaries
    import runlevel as rl
    batch = rl.Batch()
    S = rl.S
    for n, crlf, structured in ((1000, False, False), (1000, True, True)) + (((10000, True, False),) if tier == "thorough" else ()):
        tree = {"big.rs": [S(10000 + i, ref=(5 if i % 7 == 3 else None)) for i in range(n)], "zero.rs": []}
        sc = rl.Scenario("big-%d" % n, tree, lock=100, structured=structured, crlf=crlf, pad=50000)
        rl.planned_runs(binary, sc, [[("edit", ""), ("edit", "")]], batch, v)
    # the ID range runs out in the middle of a file (top of the range through the high embedding)
    hi = rl.bl.U32MAX - 9
    for structured in (False, True):
        for lock in (8, 9, None):
            sc = rl.Scenario("range-runs-out", {"f1.rs": [S(11), S(12), S(13, ref=hi + 7), S(14), S(15)], "f2.rs": [S(21), S(22)]},
                             lock=lock, base=hi, structured=structured, pad=3000)
            rl.planned_runs(binary, sc, [[("edit", ""), ("check", "")]], batch, v, sigbase={"embedding": "high"})
    # "an edit run changes a source file only by inserting tokens" also after an earlier run died: whatever that run left
    # behind (scratch files; all runs of a history have the same process ID) must not leak into the files.  Kill at
    # every scratch-file operation, then the developer removes code (shorter files), edit, check.
    for structured in (False, True):
        for sc in rl.small_trees(structured=structured)[:2]:
            rl.sweep(binary, sc, "edit", ["kill_before", "kill_after"], batch, v, follow="recover",
                     only_ops=("tmp.create", "tmp.write", "tmp.rename"))
    # ... and with TMPDIR on another file system (nothing can be moved into place: no source byte may change)
    sc = rl.small_trees(structured=False)[0]
    sc.kw["tmp_on_other_fs"] = True
    sc.name += "-xdev"
    rl.sweep(binary, sc, "edit", ["kill_before", "kill_after", "ENOSPC"], batch, v, follow="recover")
    batch.judge(v, {"C03"})
    v.cov["rule"] = ("every Rewrite.tla case (contents of <= N units of byte width 1-4 x every set of insertion points) rendered as "
                     "statements whose literals start at those points; statement layouts incl. already-referenced ones; Hostile.tla "
                     "token sequences; the repository's corpora in both styles; files with 10^3-10^4 statements; monitor: erasing the "
                     "inserted tokens gives back the original bytes")
    return v.finish()


def hostile_step(binary, v, props, cfg):
    import hostile
    cases = tlc_cases(v, cfg, module="Hostile.tla", tag="HOST")
    files = {}
    for i, c in enumerate(cases):
        files["h%06d.rs" % i] = (hostile.render(c), c)
    names = sorted(files)
    per = 1500
    jobs = []
    for structured in (False, True):
        for i in range(0, len(names), per):
            chunk = {n: files[n][0] for n in names[i:i + per]}
            jobs.append((binary, structured, chunk, (i // per) % 2 == 0))
    hostile.SKIP_REST.value = 0
    with multiprocessing.get_context("fork").Pool(max(2, min(common.NCPU - 2, 12))) as pool:
        # when the program hangs or dies on many batches the remaining ones add nothing: after the first dozen the
        # remaining batches are skipped (the workers are left to finish what they are running)
        outs, bad = [], 0
        for out in pool.imap(hostile.run_batch, jobs, chunksize=1):
            outs.append(out)
            bad += 1 if out.abnormal else 0
            if bad >= 12:
                hostile.SKIP_REST.value = 1
    for job, out in zip(jobs, outs):
        v.cov["hostile_files"] = v.cov.get("hostile_files", 0) + out.files
        v.cov["hostile_files_with_insertions"] = v.cov.get("hostile_files_with_insertions", 0) + out.with_insertions
        v.cov["traces_validated_against_impl"] += 1
        for n in job[2]:
            v.evaluated(("hostile", job[1], n))
        for mode, cls, err, culprits in out.abnormal:
            if "C17" in props:
                for (fn, c2, e2) in (culprits or [("?", cls, err)]):
                    content = files[fn][0].decode("utf-8", "replace") if fn in files else ""
                    toks = files[fn][1]["f"] if fn in files else []
                    v.violation({"check": "NoPanicNoHang", "mode": mode, "class": c2, "tokens": ",".join(toks)},
                                "breadlog %s in %s mode on hostile file %r (tokens %s): %s" % (c2, mode, content[:120], toks, e2[-200:]),
                                {"tokens": toks, "content": content, "structured": job[1], "mode": mode})
            v.cov.setdefault("abnormal_terminations", []).append({"mode": mode, "class": cls})
        for fn, text in out.problems:
            prop = "C03" if "pure insertion" in text else ("C05" if "reported" in text else "C17")
            if prop in props:
                toks = files[fn][1]["f"] if fn in files else []
                v.violation({"check": "HostileMonitor", "what": text[:40], "tokens": ",".join(toks), "structured": job[1]},
                            "%s: %s on hostile file %s (tokens %s)" % (prop, text, fn, toks),
                            {"tokens": toks, "content": files[fn][0].decode("utf-8", "replace") if fn in files else "", "structured": job[1]})
    if cases:
        c = cases[len(cases) // 2]
        v.sample({"hostile_tokens": c["f"], "tail": c["tail"], "content": hostile.render(c).decode("utf-8", "replace")})


def deep_nesting_step(binary, v, tier):
    """Well-formed and unclosed nesting far deeper than any alphabet sequence reaches: recursion in a parser grows with the
    nesting depth of its input.  Each file is run next to an ordinary one that must still be processed."""
    n = 200000
    m = 300 if tier != "thorough" else 1000
    files = {
        "nest_cmt_closed.rs": "/* " * n + "x" + " */" * n + "\nfn f(){ info!(\"after\"); }\n",
        "nest_paren_closed.rs": "fn f(){ let _ = " + "(" * n + "1" + ")" * n + "; info!(\"after\"); }\n",
        "nest_bracket_closed.rs": "fn f(){ let _ = " + "[" * n + "1" + "]" * n + "; info!(\"after\"); }\n",
        "nest_brace_closed.rs": "fn f()" + "{" * n + "info!(\"inner\");" + "}" * n + "\n",
        "nest_macro_closed.rs": "fn f(){ " + "m!(" * 20000 + "1" + ")" * 20000 + "; info!(\"after\"); }\n",
        "nest_generic_closed.rs": "type T = " + "Vec<" * 20000 + "u8" + ">" * 20000 + ";\nfn f(){ info!(\"after\"); }\n",
        "nest_cmt_open.rs": "/* " * 3000 + "\nfn f(){ info!(\"hidden\"); }\n",
        "nest_paren_open.rs": "fn f(){ g(" + "(" * 3000 + " info!(\"x\"); }\n",
        "nest_info_open.rs": "fn f(){ " + "info!(k = " * m + " }\n",
        "nest_quote_run.rs": "fn f(){ let _ = " + "\"a\" " * 50000 + "; info!(\"after\"); }\n",
    }
    for structured in (False, True):
        for name, text in files.items():
            P = bl.Project(structured=structured, tag="dn")
            try:
                P.write_sources({name: text, "ok.rs": 'fn g(){ info!("plain"); }\n'})
                for check in (True, False):
                    r = bl.run_breadlog(binary, P.config_path, check=check, tmpdir=P.tmp, shim=False, timeout=600)
                    v.evaluated(("deep-nesting", name, structured, check))
                    if r.exit_class in ("panic", "timeout", "signal", "killed"):
                        v.violation({"check": "NoPanicNoHang", "family": "deep-nesting", "file": name, "mode": "check" if check else "edit"},
                                    "C17: breadlog %s in %s mode on %s (%d bytes): %s" % (r.exit_class, "check" if check else "edit", name,
                                                                                          len(text), r.stderr[-200:]),
                                    {"family": "deep-nesting", "generator": name, "bytes": len(text), "head": text[:200]})
                ok = P.read_sources().get("ok.rs", b"")
                if b"[ref: " not in ok and b"ref = " not in ok:
                    v.violation({"check": "OthersStillProcessed", "family": "deep-nesting", "file": name},
                                "C17: the ordinary file next to %s was not processed" % name, {"generator": name})
            finally:
                P.close()
    v.cov["deep_nesting_files"] = len(files)


INVALID_UTF8 = {
    "ff-in-the-middle": b'fn f() { info!("x"); }\n\xff\xfe\xfd\nfn g() {}\n', "ff-at-the-end": b'fn f() { info!("x"); }\n\xff',
    "cut-2-byte-char": b'fn f() { info!("x"); } // caf\xc3', "cut-3-byte-char": b'fn f() { info!("x"); } // \xe4\xb8',
    "cut-4-byte-char-1": b"\xf0", "cut-4-byte-char-2": b"\xf0\x9f", "cut-4-byte-char-3": b'info!("x");\n\xf0\x9f\xa6',
    "lone-continuation": b'fn f() { info!("x"); }\n\x80\n', "overlong": b'fn f() { info!("x"); }\n\xc0\xaf\n',
    "surrogate": b'fn f() { info!("x"); }\n\xed\xa0\x80\n', "utf16-bom": b"\xff\xfef\x00n\x00 \x00f\x00(\x00)\x00",
    "nul-then-ff": b'fn f() { info!("x"); }\x00\xff', "inside-literal": b'fn f() { info!("caf\xe9"); }\n',
}


def invalid_utf8_step(binary, v):
    """Every way a file can fail to be UTF-8 (invalid bytes in the middle and at the end, characters cut short at the end of
    the file, overlong forms, surrogates, UTF-16): the file is reported and skipped, the file next to it is processed."""
    for structured in (False, True):
        for name, data in INVALID_UTF8.items():
            P = bl.Project(structured=structured, tag="iu")
            try:
                P.write_sources({"bad.rs": data, "ok.rs": 'fn g(){ info!("plain"); }\n'})
                for check in (True, False):
                    r = bl.run_breadlog(binary, P.config_path, check=check, tmpdir=P.tmp, shim=False, timeout=120)
                    v.evaluated(("invalid-utf8", name, structured, check))
                    if r.exit_class in ("panic", "timeout", "signal", "killed"):
                        v.violation({"check": "NoPanicNoHang", "family": "invalid-utf8", "file": name, "mode": "check" if check else "edit"},
                                    "C17: breadlog %s in %s mode on a file that is not UTF-8 (%s): %s" % (
                                        r.exit_class, "check" if check else "edit", name, r.stderr[-200:]),
                                    {"family": "invalid-utf8", "shape": name, "bytes_hex": data.hex()})
                    elif not any(l["code"] == 4 for l in r.logs):
                        v.violation({"check": "UnreadableReported", "family": "invalid-utf8", "file": name},
                                    "C17: a file that is not UTF-8 (%s) was not reported as unreadable" % name,
                                    {"shape": name, "bytes_hex": data.hex()})
                after = P.read_sources()
                if after.get("bad.rs") != data:
                    v.violation({"check": "UnreadableUntouched", "family": "invalid-utf8", "file": name},
                                "C17: a file that is not UTF-8 (%s) was modified" % name, {"shape": name, "bytes_hex": data.hex()})
                ok = after.get("ok.rs", b"")
                if b"[ref: " not in ok and b"ref = " not in ok:
                    v.violation({"check": "OthersStillProcessed", "family": "invalid-utf8", "file": name},
                                "C17: the ordinary file next to a file that is not UTF-8 (%s) was not processed" % name, {"shape": name})
            finally:
                P.close()
    v.cov["invalid_utf8_shapes"] = len(INVALID_UTF8)


def _special_entries(src):
    """name -> function creating a directory entry named *.rs that is not an ordinary file"""
    import socket

    def sock(p):
        so = socket.socket(socket.AF_UNIX)
        so.bind(p)
        so.close()
    return {
        "fifo": lambda p: os.mkfifo(p),
        "socket": sock,
        "directory": lambda p: (os.mkdir(p), open(os.path.join(p, "inner.rs"), "w").write('fn i(){ info!("inner"); }\n')),
        "dangling-link": lambda p: os.symlink(os.path.join(src, "nowhere.rs"), p),
        "link-loop": lambda p: os.symlink(p, p),
        "link-to-fifo": lambda p: (os.mkfifo(p + ".pipe"), os.symlink(p + ".pipe", p)),
        "link-to-dev-zero": lambda p: os.symlink("/dev/zero", p),
        "link-to-directory": lambda p: os.symlink(src, p),
    }


def special_files_step(binary, v):
    """Something named like a source file that is no ordinary file (a named pipe nobody writes to, a socket, a directory,
    links that lead nowhere, in circles or to an endless device): both modes end by themselves and the ordinary files next
    to it are processed."""
    kinds = sorted(_special_entries(""))
    for structured in (False, True):
        for kind in kinds:
            P = bl.Project(structured=structured, tag="sf")
            try:
                P.write_sources({"a.rs": 'fn a(){ info!("alpha"); }\n', "z.rs": 'fn z(){ info!("omega"); }\n'})
                _special_entries(P.src)[kind](os.path.join(P.src, "events.rs"))
                for check in (True, False):
                    r = bl.run_breadlog(binary, P.config_path, check=check, tmpdir=P.tmp, shim=False, timeout=20)
                    v.evaluated(("special-file", kind, structured, check))
                    if r.exit_class in ("panic", "timeout", "signal", "killed"):
                        v.violation({"check": "NoPanicNoHang", "family": "special-file", "file": kind, "mode": "check" if check else "edit"},
                                    "C17: breadlog %s in %s mode with a %s named events.rs in the source directory: %s" % (
                                        r.exit_class, "check" if check else "edit", kind, r.stderr[-200:]),
                                    {"family": "special-file", "kind": kind})
                        break
                else:
                    for name in ("a.rs", "z.rs"):
                        data = open(os.path.join(P.src, name), "rb").read()
                        if b"[ref: " not in data and b"ref = " not in data:
                            v.violation({"check": "OthersStillProcessed", "family": "special-file", "file": kind},
                                        "C17: the ordinary file %s next to a %s named events.rs was not processed" % (name, kind),
                                        {"family": "special-file", "kind": kind})
            finally:
                P.close()
    v.cov["special_file_kinds"] = len(kinds)


def c17(tier):
    v = Verdict("C17", tier, level="exploration")
    binary = common.build_breadlog()
    hostile_step(binary, v, {"C17"}, "intended/HostileT.cfg" if tier == "thorough" else "intended/HostileQ.cfg")
    corpus_step(binary, v, {"C17"})
    # statement families: every execution is monitored for abnormal termination
    cases = tlc_cases(v, "intended/StmtDecoy.cfg")
    run_cases(binary, cases, v, {"C17"}, "decoy")
    deep_nesting_step(binary, v, tier)
    invalid_utf8_step(binary, v)
    special_files_step(binary, v)
    run_cases(binary, reftoken_cases(v, "quick"), v, {"C17"}, "reftoken", solo=0)
    run_cases(binary, tlc_cases(v, "intended/StmtKv.cfg"), v, {"C17"}, "kv", solo=0)
    dpacks, dsolo = directive_packs(v, "quick")
    run_cases(binary, None, v, {"C17"}, "directives", packs=dpacks, groups_extra=dsolo)
    # ID arithmetic at the u32 boundary and empty / huge inputs
    import runlevel as rl
    batch = rl.Batch()
    S = rl.S
    hi = rl.bl.U32MAX - 9
    for structured in (False, True):
        for lock in (None, 9, 8):
            sc = rl.Scenario("u32-boundary", {"f1.rs": [S(11), S(12, ref=hi + 8), S(13)], "f2.rs": [S(21, ref=hi + 9), S(22)]},
                             lock=lock, base=hi, structured=structured)
            rl.planned_runs(binary, sc, [[("check", ""), ("edit", ""), ("check", "")]], batch, v)
        sc = rl.Scenario("empty-files", {"f1.rs": [], "f2.rs": []}, structured=structured)
        rl.planned_runs(binary, sc, [[("check", ""), ("edit", "")]], batch, v)
        for n in ((2000, 10000) if tier == "thorough" else (2000,)):
            sc = rl.Scenario("large-%d" % n, {"big.rs": [S(10000 + i) for i in range(n)]}, structured=structured, pad=1500000 if n > 2000 else 300000)
            rl.planned_runs(binary, sc, [[("check", ""), ("edit", "")]], batch, v)
    batch.judge(v, {"C17"})
    v.cov["rule"] = ("Hostile.tla: every sequence of <= N tokens over a 32-token alphabet of tool-breaking fragments x {trailing newline, none} "
                     "as one file each, both styles, with a non-UTF-8 file alongside; real-code corpora; statement families; u32 boundary; "
                     "empty and multi-megabyte files; non-trivial = file in which --check or edit found something")
    v.cov["distinct_nontrivial_note"] = "counted as evaluated cases; files with insertions: see hostile_files_with_insertions"
    v.assumptions += ["exploration guided by a model, not a decision over all byte strings (DESIGN.md section 6)"]
    return v.finish()


def c15(tier):
    import scope
    v = Verdict("C15", tier)
    cases = tlc_cases(v, "intended/ScopeT.cfg" if tier == "thorough" else "intended/ScopeQ.cfg", module="MCScope.tla", tag="SCOPE")
    if tier == "thorough":
        cases += tlc_cases(v, "intended/ScopeT3.cfg", module="MCScope.tla", tag="SCOPE")
    # the universe as one layout, for every configuration: its in-scope set is the union of the single-entry layouts'
    allids = sorted({e for c in cases for e in c["layout"]})
    single = {}
    for c in cases:
        key = (tuple(c["exts"]), c["sd"], tuple(c["inv"]), c.get("tmp", "same"))
        single.setdefault(key, set())
        if len(c["layout"]) == 1:
            single[key] |= set(c["expected"])
    seen = set()
    extra = []
    for c in cases:
        key = (tuple(c["exts"]), c["sd"], tuple(c["inv"]), c.get("tmp", "same"))
        if key in seen:
            continue
        seen.add(key)
        extra.append(dict(c, layout=allids, expected=sorted(single[key]),
                          modified=([] if c.get("tmp") == "otherfs" else sorted(single[key]))))
    if tier != "thorough":
        rnd = random.Random(common.seed())
        rnd.shuffle(cases)
        cases = cases[:6000]
    cases = extra + cases
    binary = common.build_breadlog()
    jobs = [(binary, c) for c in cases]
    with multiprocessing.get_context("fork").Pool(max(2, min(common.NCPU - 2, 14))) as pool:
        results = pool.map(scope.run_case, jobs, chunksize=16)
    for c, (problems, obs) in zip(cases, results):
        v.evaluated(json.dumps(c, sort_keys=True))
        v.cov["traces_validated_against_impl"] += 1
        if len(c["layout"]) > 1:
            v.sample({"case": c, "observed": obs})
        for prop, text in problems:
            oo = v.cov.setdefault("mismatches_by_property", {})
            oo[prop] = oo.get(prop, 0) + 1
            if prop != "C15":
                continue
            v.violation({"check": "Scope", "what": text[:30], "exts": ",".join(c["exts"]), "sd": c["sd"], "inv": "/".join(c["inv"]),
                         "tmp": c.get("tmp", "same")},
                        "C15: %s  (layout %s, extensions %s, source_dir %s, invocation %s)" % (text, c["layout"], c["exts"], c["sd"], c["inv"]),
                        {"case": c, "observed": obs})
    v.cov["rule"] = ("every layout of <= N optional entries from a 28-entry universe (nesting, dotted and hidden directory names, look-alike extensions and siblings, a directory named "
                     "*.rs, symlinks to files and directories inside and outside) x 7 extension lists (sorted and unsorted) x 5 spellings of source_dir x TMPDIR on the same / another file system x 9 "
                     "(current directory, config path spelling) pairs, plus the whole universe at once; real directories and symlinks")
    v.cov["exhaustive"] = (tier == "thorough")
    return v.finish()


def c09(tier):
    import compile as cp
    v = Verdict("C09", tier)
    cases = tlc_cases(v, "intended/StmtCompileKv.cfg") + tlc_cases(v, "intended/StmtCompileLayout.cfg")
    r = run_tlc("MCStmt.tla", "asfound/StmtInsertPoint.cfg", workers=4, coverage=False)
    if r.violated not in ("RoundTrip", "StillAccepted"):
        raise ToolError("as-found insertion point not refuted by TLC: %s" % r.violated)
    v.cov.setdefault("expected_counterexamples", []).append({"cfg": "asfound/StmtInsertPoint.cfg", "violated": r.violated})
    cases = [c for c in cases if cp.compilable(c)]
    rnd = random.Random(common.seed() + 9)
    n = 2500 if tier == "thorough" else 350
    binary = common.build_breadlog()
    for mode in ("unstructured", "structured"):
        cs = [c for c in cases if c["mode"] == mode]
        rnd.shuffle(cs)
        # make sure the interesting classes are present whatever the seed
        must = [c for c in cs if c["s"]["target"] != "none" and c["outcome"] == "missing"][:60]
        # stratified: every combination of (layout, target or not, number of key-values, directive, message class) that
        # occurs is represented before the rest of the budget is filled at random
        strata = {}
        for c in cs:
            s1 = c["s"]
            strata.setdefault((s1["layout"], s1["target"] != "none", len(s1["kvs"]), s1["dir"]), []).append(c)
        per = [lst[:2] for _, lst in sorted(strata.items())]
        chosen = must + [c for lst in per for c in lst] + cs[:n]
        seen_ids, uniq = set(), []
        for c in chosen:
            k = json.dumps(c, sort_keys=True)
            if k not in seen_ids:
                seen_ids.add(k)
                uniq.append(c)
        chosen = uniq
        problems, stats = cp.run_program(binary, chosen, mode == "structured")
        v.cov["traces_validated_against_impl"] += 1
        v.cov.setdefault("compiled_programs", []).append({"mode": mode, "statements": stats.get("statements"), "edited": stats.get("edited")})
        v.sample({"mode": mode, "record_before": stats.get("sample_before"), "record_after": stats.get("sample_after")})
        for c in chosen:
            v.evaluated((mode, json.dumps(c, sort_keys=True)))
        for c, text in problems:
            sig = {"check": "BehaviourPreserved", "structured": mode == "structured", "what": text[:40]}
            if c is not None:
                sig.update({"target": c["s"]["target"] != "none", "msg": c["s"]["msg"], "layout": c["s"]["layout"], "context": c["s"]["context"],
                            "dir": c["s"]["dir"], "kvs": ",".join(c["s"]["kvs"])})
            v.violation(sig, "C09: %s%s" % (text, ("  case %s" % json.dumps(c["s"])) if c else ""), {"case": c, "mode": mode})
    # identifiers at the width of a signed 32-bit integer: the log crate captures `ref = N` as an unsuffixed integer literal
    base = {"head": "bare", "target": "none", "kvs": [], "msg": "plain", "dir": "none", "trailing": "none", "layout": "space",
            "context": "indent"}
    few = [{"s": dict(base, kvs=kv, target=t), "mode": "structured", "outcome": "missing", "place": "after_target_before_kvs",
            "sep": "," if kv else ";", "ref": -1} for kv in ([], ["int"]) for t in ("none", "plain")] * 2
    problems, stats = cp.run_program(binary, few, True, lock=2147483644)
    v.cov["traces_validated_against_impl"] += 1
    for c in few:
        v.evaluated(("structured-wide-id", json.dumps(c, sort_keys=True)))
    for c, text in problems:
        m = re.search(r"\[id (\d+)\]", text)
        wide = bool(m) and int(m.group(1)) >= 2 ** 31
        sig = {"check": "BehaviourPreserved", "structured": True, "what": text[:40], "id_at_least_2_31": wide}
        v.violation(sig, "C09: %s (lock 2147483644)%s" % (text, ("  case %s" % json.dumps(c["s"])) if c else ""), {"case": c, "mode": "structured", "lock": 2147483644})
    v.cov["rule"] = ("statements sampled (seeded) from the compile-safe part of the LogStmt feature space (targets, 0-2 key-values with "
                     "capture modifiers and shorthand, message classes, trailing format arguments, layouts, contexts, directives), one "
                     "function per statement in a generated crate with a capturing logger; compiled and run before and after the edit; "
                     "records compared per statement")
    v.assumptions += ["only capture modifiers that build with log's `kv` feature offline are executed (:?, :debug, :%, :display)"]
    return v.finish()


TABLE = {"C09": c09, "C15": c15, "C03": c03, "C17": c17, "C10": c10, "C11": c11, "C12": c12, "C13": c13, "C14": c14}
