"""Statement-level property checks (C03, C09-C15, C17): TLC enumerates the feature space of a specification module
and checks its invariants; every enumerated case is rendered and executed on the real binary; the observed outcome
per statement is compared with the specification's."""
import json
import multiprocessing
import os
import random

import bl
import common
import stmt as st
from common import Verdict, run_tlc, require_tlc_ok, log, ToolError
from checks_run import tlc_dump

PACK = 700


def tlc_cases(v, cfg, module="MCStmt.tla", tag="CASE", need=()):
    r = run_tlc(module, cfg, workers=min(8, common.NCPU), coverage=False, timeout=3000, xmx="12g")
    if not r.ok:
        raise ToolError("TLC on %s failed: violated=%s error=%s\n%s" % (cfg, r.violated, r.error, r.out[-1500:] if not r.violated else ""))
    v.add_tlc(r, cfg)
    cases = tlc_dump(r, tag)
    log("[tlc] %s: %d distinct states, %d cases dumped, %.1fs" % (cfg, r.distinct, len(cases), r.wall))
    return cases


def _obs_job(job):
    binary, packs, structured = job
    res, runs = st.observe_pack(binary, packs, structured)
    bad = {}
    for name, r in runs.items():
        if r.exit_class in ("panic", "timeout", "signal", "killed"):
            bad[name] = (r.exit_class, r.stderr[-300:])
    return res, bad, {k: r.exit_class for k, r in runs.items()}


def classify_problem(r, text, structured):
    """Which property does a mismatch speak about?"""
    if r is None:
        if "pure insertion" in text:
            return "C03"
        if "second --check" in text or "second edit" in text:
            return "C06"
        return "C11"
    s = r.case["s"]
    exp = r.case["outcome"]
    if "reported location" in text:
        return "C05"
    if exp == "none":
        return "C11"
    if exp == "ignored":
        return "C14"
    if exp in ("unusable", "untouched"):
        return "C13"
    if exp == "hasref":
        return "C13" if (structured and s["dir"] != "nokvp") else "C12"
    if exp == "missing":
        if s["dir"] == "nokvp":
            return "C14"
        if structured and ("token" in text or "key-value inserted" in text):
            return "C13"
        return "C10"
    return "C10"


def make_packs(cases):
    bymode = {"structured": [], "unstructured": []}
    for c in cases:
        bymode[c["mode"]].append(c)
    packs = []
    uid = 1000
    for mode, cs in bymode.items():
        for i in range(0, len(cs), PACK):
            pk = st.Pack("p_%s_%d.rs" % (mode[0], i // PACK))
            for c in cs[i:i + PACK]:
                uid += 1
                pk.add(st.render_case(c, uid))
            pk.finish()
            packs.append((pk, mode == "structured"))
    return packs


def run_cases(binary, cases, v, props, label, sigextra=None, packs=None):
    """Render, pack (per mode), execute, compare. Registers violations tagged with a property in `props`."""
    packs_all = packs if packs is not None else make_packs(cases)
    jobs = [(binary, [pk], structured) for pk, structured in packs_all]
    procs = max(2, min(common.NCPU - 2, 14))
    if len(jobs) > 2:
        with multiprocessing.get_context("fork").Pool(procs) as pool:
            results = pool.map(_obs_job, jobs, chunksize=1)
    else:
        results = [_obs_job(j) for j in jobs]
    nprob = 0
    for (pk, structured), (res, bad, exits) in zip(packs_all, results):
        for name, (cls, err) in bad.items():
            v.cov.setdefault("abnormal_terminations", []).append({"pack": pk.name, "run": name, "class": cls, "stderr": err})
            if "C17" in props:
                v.violation({"check": "NoPanicNoHang", "run": name, "family": label}, "breadlog %s in %s on pack %s: %s" % (cls, name, pk.name, err),
                            {"family": label, "file": pk.text[:20000]})
        v.cov["traces_validated_against_impl"] += 1
        v.cov["cases_compared"] = v.cov.get("cases_compared", 0) + len(pk.items)
        problems, per = st.judge_pack(pk, res[pk.name], structured)
        for r in pk.items:
            v.evaluated((label, json.dumps(r.case, sort_keys=True)))
        for (r, text, o) in problems:
            prop = classify_problem(r, text, structured)
            oo = v.cov.setdefault("mismatches_by_property", {})
            oo[prop] = oo.get(prop, 0) + 1
            if prop not in props:
                continue
            nprob += 1
            sig = {"check": "StatementOutcome", "family": label, "structured": structured}
            if r is not None:
                s = r.case["s"]
                sig.update({"head": s["head"], "target": s["target"] != "none", "msg": s["msg"], "layout": s["layout"],
                            "context": s["context"], "dir": s["dir"], "expected": r.case["outcome"],
                            "kvs": ",".join(s["kvs"])})
            else:
                sig["file_level"] = text[:60]
            if sigextra:
                sig.update(sigextra)
            v.violation(sig, "%s: %s%s" % (prop, text, ("  statement: %r" % r.text.strip()[:200]) if r is not None else ""),
                        {"case": r.case if r is not None else None, "statement": r.text if r is not None else None,
                         "structured": structured, "problem": text, "pack": pk.name})
        if pk.items:
            r0 = pk.items[len(pk.items) // 2]
            v.sample({"case": r0.case, "rendered": r0.text})
    return nprob


def c10(tier):
    v = Verdict("C10", tier)
    cases = tlc_cases(v, "intended/StmtLayoutQ.cfg" if tier != "thorough" else "intended/StmtLayoutT.cfg")
    binary = common.build_breadlog()
    n = run_cases(binary, cases, v, {"C10"}, "layout")
    v.cov["rule"] = ("every feature record TLC enumerates for the configuration (head x target x key-values x message class x "
                     "trailing arguments x inter-token layout x context before the statement x mode), rendered and packed "
                     "%d statements per file; distinct = feature record" % PACK)
    v.cov["exhaustive"] = True
    return v.finish()


def c11(tier):
    v = Verdict("C11", tier)
    cases = tlc_cases(v, "intended/StmtDecoy.cfg")
    binary = common.build_breadlog()
    packs = make_packs(cases)
    # a comment on the last line of a file without a trailing newline, after real statements
    uid = 500000
    for mode in ("structured", "unstructured"):
        for head in ("linecomment", "doccomment", "blockcomment"):
            for nreal in (0, 2):
                pk = st.Pack("tail_%s_%s_%d.rs" % (mode[0], head, nreal))
                base = {"target": "none", "kvs": [], "msg": "plain", "dir": "none", "trailing": "none", "layout": "space",
                        "context": "indent"}
                for j in range(nreal):
                    uid += 1
                    pk.add(st.render_case({"s": dict(base, head="bare"), "mode": mode, "outcome": "missing",
                                           "sep": ";" if mode == "structured" else "msg"}, uid))
                uid += 1
                tail = st.render_case({"s": dict(base, head=head), "mode": mode, "outcome": "none", "sep": "msg"}, uid)
                pk.finish(tail=tail)
                packs.append((pk, mode == "structured"))
    run_cases(binary, None, v, {"C11"}, "decoy", packs=packs)
    v.cov["rule"] = ("decoys (comments of three kinds, unconfigured / prefix / suffix / other-module names, no literal, no "
                     "arguments, macro text inside a string literal) enumerated by TLC together with real statements and packed in "
                     "enumeration order, plus files ending in a commented-out statement without trailing newline; distinct = record")
    v.cov["exhaustive"] = True
    return v.finish()


SYM = {"sp": " ", "d": "\u0663", "R": "R", "x": "x"}


def c12(tier):
    v = Verdict("C12", tier)
    toks = []
    for cfg in (("intended/RefTokenT.cfg" if tier == "thorough" else "intended/RefTokenQ.cfg"), "intended/RefTokenB.cfg"):
        toks += tlc_cases(v, cfg, module="MCRefToken.tla", tag="TOK")
    cases = []
    base = {"head": "bare", "target": "none", "kvs": [], "msg": "custom", "dir": "none", "trailing": "none",
            "layout": "space", "context": "indent"}
    for t in toks:
        text = "".join(SYM.get(c, c) for c in t["w"])
        cases.append({"s": base, "mode": "unstructured", "msgtext": text, "outcome": "hasref" if t["valid"] else "missing",
                      "place": "message_start", "sep": "msg", "w": t["w"]})
    # ref-like text elsewhere: later in the message, in a format argument, in a key-value string
    cases += tlc_cases(v, "intended/StmtRefLike.cfg")
    binary = common.build_breadlog()
    run_cases(binary, cases, v, {"C12"}, "reftoken")
    # tokens with 10-digit numbers: written by the tool itself and read back
    import runlevel as rl
    batch = rl.Batch()
    for structured in (False,):
        sc = rl.Scenario("ten-digit-ids", {"f1.rs": [rl.S(11), rl.S(12, ref=4294967280)], "f2.rs": [rl.S(21)]},
                         lock=4294967286 - (4294967295 - 9), base=4294967295 - 9, structured=structured)
        rl.planned_runs(binary, sc, [[("edit", ""), ("check", ""), ("edit", "")]], batch, v)
    for prop, name, meta, local, detail in batch.judge(v, set()):
        if prop in ("C06", "C01", "C03"):
            v.violation({"check": name, "family": "ten-digit-ids"}, "C12: a 10-digit token written by Breadlog is not read back: %s %s" % (name, detail[:200]),
                        {"scenario": meta.get("scenario_desc")})
    v.cov["rule"] = ("every string TLC reaches in RefToken (all strings of <= N symbols over a 13-symbol alphabet after each proper "
                     "prefix of '[ref: ', and numbers around 2^32 and the digit-count limits extended by <= 2 symbols) placed at the start "
                     "of a message literal; ref-like text in other places; 10-digit tokens written by the tool and read back")
    v.cov["exhaustive"] = True
    return v.finish()


def c13(tier):
    v = Verdict("C13", tier)
    cases = tlc_cases(v, "intended/StmtKv.cfg" if tier != "thorough" else "intended/StmtKvT.cfg")
    r = run_tlc("MCStmt.tla", "asfound/StmtInsertPoint.cfg", workers=4, coverage=False)
    if r.violated not in ("RoundTrip", "StillAccepted"):
        raise ToolError("as-found insertion point not refuted by TLC: %s" % r.violated)
    v.cov.setdefault("expected_counterexamples", []).append({"cfg": "asfound/StmtInsertPoint.cfg", "violated": r.violated})
    binary = common.build_breadlog()
    run_cases(binary, cases, v, {"C13"}, "kv")
    v.cov["rule"] = ("every key-value sequence up to the bound over the shape alphabet (values, shorthand, capture modifiers, strings "
                     "with ; and , and every form of an existing `ref` key) x target x message class x directive x both modes")
    v.cov["exhaustive"] = True
    return v.finish()


def c14(tier):
    v = Verdict("C14", tier)
    cases = tlc_cases(v, "intended/DirectivesT.cfg" if tier == "thorough" else "intended/DirectivesQ.cfg",
                      module="Directives.tla", tag="DIR")
    binary = common.build_breadlog()
    packs = []
    uid = 2000
    for mode in ("structured", "unstructured"):
        cs = [c for c in cases if c["mode"] == mode]
        for i in range(0, len(cs), 250):
            pk = st.Pack("d_%s_%d.rs" % (mode[0], i // 250))
            for c in cs[i:i + 250]:
                uid = st.render_directive_case(pk, c, uid)
            pk.finish()
            packs.append((pk, mode == "structured"))
    run_cases(binary, None, v, {"C14"}, "directives", packs=packs)
    # the statement-level family with directives on statements that have targets and key-values
    cases2 = [c for c in tlc_cases(v, "intended/StmtKv.cfg") if c["s"]["dir"] != "none"]
    run_cases(binary, cases2, v, {"C14"}, "directives-kv")
    v.cov["rule"] = ("every file of <= N lines over the 18-kind line alphabet of Directives.tla containing a statement, both modes, "
                     "packed with code lines in between; plus directives on statements with targets and key-values")
    v.cov["exhaustive"] = True
    return v.finish()


TABLE = {"C10": c10, "C11": c11, "C12": c12, "C13": c13, "C14": c14}
