"""C09: programs generated from the statement feature space are compiled and run before and after a Breadlog edit;
the emitted log records are compared."""
import json
import os
import re
import shutil
import subprocess

import bl
import common
import stmt as st
from common import ToolError, new_scratch, rm_scratch

MAIN_RS = r'''
use log::kv::{Key, Value, VisitSource};
use log::{Level, Log, Metadata, Record};

mod generated;

struct Capture;

struct Collect(Vec<(String, String)>);

impl<'kvs> VisitSource<'kvs> for Collect
{
    fn visit_pair(&mut self, key: Key<'kvs>, value: Value<'kvs>) -> Result<(), log::kv::Error>
    {
        self.0.push((key.as_str().to_string(), format!("{}", value)));
        Ok(())
    }
}

fn esc(s: &str) -> String
{
    let mut o = String::new();
    for c in s.chars()
    {
        match c
        {
            '"' => o.push_str("\\\""),
            '\\' => o.push_str("\\\\"),
            '\n' => o.push_str("\\n"),
            '\r' => o.push_str("\\r"),
            '\t' => o.push_str("\\t"),
            c if (c as u32) < 0x20 => o.push_str(&format!("\\u{:04x}", c as u32)),
            c => o.push(c),
        }
    }
    o
}

impl Log for Capture
{
    fn enabled(&self, _: &Metadata) -> bool
    {
        true
    }

    fn log(&self, record: &Record)
    {
        let mut c = Collect(Vec::new());
        let _ = record.key_values().visit(&mut c);
        let kvs: Vec<String> = c.0.iter().map(|(k, v)| format!("[\"{}\",\"{}\"]", esc(k), esc(v))).collect();
        println!(
            "{{\"level\":\"{}\",\"target\":\"{}\",\"msg\":\"{}\",\"kvs\":[{}]}}",
            record.level(),
            esc(record.target()),
            esc(&format!("{}", record.args())),
            kvs.join(",")
        );
    }

    fn flush(&self) {}
}

static LOGGER: Capture = Capture;

fn main()
{
    log::set_logger(&LOGGER).unwrap();
    log::set_max_level(Level::Trace.to_level_filter());
    generated::run_all();
}
'''

CARGO_TOML = '''[package]
name = "c09prog"
version = "0.1.0"
edition = "2021"

[dependencies]
log = { version = "=0.4.22", features = ["kv"] }

[workspace]
'''


def compilable(case):
    s = case["s"]
    if s["head"] not in ("bare", "qualified"):
        return False
    if any(k in st.KV_NOCOMPILE or k in ("ref=max", "ref=hex", "ref=suffixed", "ref=str") for k in s["kvs"]):
        return False
    if s["msg"] in ("openquote",):
        return False
    if s["context"] in ("afterstmt",):      # a second statement on the line: one record per function is assumed
        return False
    return True


def _target_dir():
    """the cargo target directory of the generated crate; one per repository path, so that runs against different working
    trees (seeded changes, benign changes) can go on at the same time"""
    import hashlib
    tag = "" if common.REPO == "/repo" else "-" + hashlib.md5(common.REPO.encode()).hexdigest()[:8]
    return os.path.join(common.CACHE, "c09target" + tag)


C09_TARGET = _target_dir()


def gen_program(cases, bom=False):
    """Returns (text of generated.rs, list of (uid, case, first_line, last_line))."""
    out = [("\ufeff" if bom else "") + "#![allow(unused, unreachable_code, clippy::all)]\nuse log::{info, warn, error};\nconst TGT: &str = \"const-target\";\n\n"]
    index = []
    line = 5
    uid = 7000
    calls = []
    for c in cases:
        uid += 1
        r = st.render_case(c, uid)
        body = "pub fn s%d() {\n    let x = 1; let y = 2; let z = \"root\";\n" % uid
        text = body + r.text + "}\n\n"
        first = line
        line += text.count("\n")
        index.append((uid, c, first, line - 1))
        out.append(text)
        calls.append("    s%d();\n" % uid)
        if len(index) == 10:
            # a long stretch without any statement (more than one 64 KiB buffer, not a multiple of it)
            filler = "// " + "filler " * 12 + "\n"
            block = filler * (70000 // len(filler) + 1)
            out.append(block)
            line += block.count("\n")
    out.append("pub fn run_all() {\n" + "".join(calls) + "}\n")
    return "".join(out), index


def cargo(args, cwd, timeout=1800):
    env = dict(os.environ, CARGO_NET_OFFLINE="true", CARGO_TARGET_DIR=C09_TARGET,
               RUSTFLAGS="-A warnings")
    env.pop("RUST_LOG", None)
    p = subprocess.run(["cargo"] + args, cwd=cwd, env=env, stdout=subprocess.PIPE, stderr=subprocess.STDOUT, text=True,
                       timeout=timeout, errors="replace")
    return p.returncode, p.stdout


def build_and_run(crate):
    rc, out = cargo(["build", "--offline", "--quiet"], crate)
    if rc != 0:
        return None, out
    exe = os.path.join(C09_TARGET, "debug", "c09prog")
    p = subprocess.run([exe], stdout=subprocess.PIPE, stderr=subprocess.PIPE, text=True, timeout=300, errors="replace")
    if p.returncode != 0:
        return None, "program exited with %s: %s" % (p.returncode, p.stderr[-500:])
    recs = []
    for line in p.stdout.splitlines():
        try:
            recs.append(json.loads(line))
        except ValueError:
            recs.append({"raw": line})
    return recs, ""


REF_RE = re.compile(r"\[ref: ([0-9]{1,10})\]")


def run_program(binary, cases, structured, lock=100000):
    """Returns (problems, stats). problems: list of (case or None, text).  Each problem text about a statement ends with
    the ID the statement received, when it received one (" [id N]")."""
    problems = []
    root = new_scratch("c9")
    crate = os.path.join(root, "prog")
    try:
        os.makedirs(os.path.join(crate, "src"))
        with open(os.path.join(crate, "Cargo.toml"), "w") as fh:
            fh.write(CARGO_TOML)
        shutil.copy(os.path.join(common.REPO, "Cargo.lock"), os.path.join(crate, "Cargo.lock"))
        with open(os.path.join(crate, "src", "main.rs"), "w") as fh:
            fh.write(MAIN_RS)
        text, index = gen_program(cases, bom=structured)
        gen_path = os.path.join(crate, "src", "generated.rs")
        with open(gen_path, "w") as fh:
            fh.write(text)
        rec_a, err = build_and_run(crate)
        if rec_a is None:
            raise ToolError("generated program does not compile/run BEFORE the edit (generator bug):\n" + err[-3000:])
        if len(rec_a) != len(index):
            raise ToolError("generated program emitted %d records for %d statements" % (len(rec_a), len(index)))
        # Breadlog edit
        with open(os.path.join(crate, "Breadlog.yaml"), "w") as fh:
            fh.write("---\nsource_dir: src\nrust:\n  structured: %s\n  log_macros:\n    - module: log\n      name: info\n"
                     "    - module: log\n      name: warn\n    - module: log\n      name: error\n" % ("true" if structured else "false"))
        # existing references in the generated statements include 4294967295; allocate from a lock value instead
        with open(os.path.join(crate, "Breadlog.lock"), "w") as fh:
            fh.write(bl.LOCK_HEADER + "next_reference_id: %d\n" % lock)
        tmp = os.path.join(root, "tmp")
        os.makedirs(tmp)
        r = bl.run_breadlog(binary, os.path.join(crate, "Breadlog.yaml"), check=False, tmpdir=tmp, roots=(), shim=False, timeout=300)
        if r.exit_class != 0:
            problems.append((None, "edit run on the generated program failed: %s %s" % (r.exit_class, r.stdout[-300:])))
        with open(gen_path) as fh:
            text_b = fh.read()
        rec_b, err = build_and_run(crate)
        if rec_b is None:
            # attribute compile errors to statements through rustc's line numbers
            lines = sorted(set(int(m.group(1)) for m in re.finditer(r"src/generated\.rs:(\d+):", err)))
            # map lines of the edited file back: insertions do not add lines
            hit = 0
            blines_b = text_b.split("\n")
            for (uid, c, first, last) in index:
                if any(first <= ln <= last for ln in lines):
                    hit += 1
                    got = re.search(r"ref = (\d+)|\[ref: (\d+)\]", "\n".join(blines_b[first - 1:last]))
                    ident = (got.group(1) or got.group(2)) if got else None
                    problems.append((c, "the statement no longer compiles after the edit" + (" [id %s]" % ident if ident else "")))
            if not hit:
                problems.append((None, "the program no longer compiles after the edit: " + err[-600:]))
            return problems, {"statements": len(index), "edited": 0}
        if len(rec_b) != len(rec_a):
            problems.append((None, "record count changed from %d to %d" % (len(rec_a), len(rec_b))))
            return problems, {"statements": len(index), "edited": 0}
        # per statement comparison
        blines = text_b.split("\n")
        edited = 0
        for (uid, c, first, last), a, b in zip(index, rec_a, rec_b):
            src_b = "\n".join(blines[first - 1:last])
            exp = c["outcome"]
            if exp == "any" and a != b:
                exp = "missing"      # free to edit it or not; if edited, then only by adding the reference
            if a == b:
                if exp == "missing":
                    problems.append((c, "statement lacking a reference emits an unchanged record after the edit (not edited?)"))
                continue
            edited += 1
            if exp != "missing":
                problems.append((c, "record changed although the statement needed no reference: %s -> %s" % (a, b)))
                continue
            if a.get("level") != b.get("level") or a.get("target") != b.get("target"):
                problems.append((c, "level/target changed: %s -> %s" % (a, b)))
                continue
            struct_here = structured and c["s"]["dir"] != "nokvp"
            if struct_here:
                kb = [tuple(x) for x in b["kvs"]]
                ka = [tuple(x) for x in a["kvs"]]
                refs = [v for k, v in kb if k == "ref"]
                rest = [x for x in kb if x[0] != "ref"] if not any(k == "ref" for k, _ in ka) else kb
                if b["msg"] != a["msg"] or rest != ka or len(refs) != 1 or not refs[0].isdigit():
                    problems.append((c, "structured edit changed more than adding ref: %s -> %s" % (a, b)))
                    continue
                m = re.search(r"ref = (\d+)", src_b)
                if not m or m.group(1) != refs[0]:
                    problems.append((c, "record carries ref=%s but the source says %s" % (refs[0], m.group(1) if m else None)))
            else:
                m = REF_RE.match(b["msg"])
                if not m:
                    problems.append((c, "message of the edited statement does not start with a reference token: %r" % b["msg"]))
                    continue
                tok = m.group(0) + " "
                if b["msg"] != tok + a["msg"] or b["kvs"] != a["kvs"]:
                    problems.append((c, "unstructured edit changed more than the message prefix: %s -> %s" % (a, b)))
                    continue
                if ("[ref: %s] " % m.group(1)) not in src_b:
                    problems.append((c, "record carries reference %s which is not in the source" % m.group(1)))
        return problems, {"statements": len(index), "edited": edited, "sample_before": rec_a[len(rec_a) // 2], "sample_after": rec_b[len(rec_b) // 2]}
    finally:
        rm_scratch(root)
