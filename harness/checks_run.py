"""Run-level property checks (C01, C02, C04-C08, C16, C18): TLC on the design model, scenarios replayed on the real
binary, recorded traces judged by Observe.tla."""
import json
import random

import common
import runlevel as rl
from common import Verdict, run_tlc, require_tlc_ok, log

S = rl.S


def bl_lock_text(n):
    return rl.bl.LOCK_HEADER + "next_reference_id: %d\n" % n


EXTRA = {"notes.txt": "not a source file\n", "src/readme.md": "out of scope\n",
         # what editors, merges and killed tools leave next to the files Breadlog owns
         "Breadlog.lock.tmp": "next_reference_id: 99\n", "Breadlog.lock.bak": "next_reference_id: 2\n", ".Breadlog.lock.swp": "b0VIM\n",
         "Breadlog.yaml.orig": "source_dir: elsewhere\n", "src/f1.rs.tmp": "fn leftover() {}\n", "src/f1.rs.orig": "fn older() {}\n"}


def tiered(cfg, tier):
    """intended/X.cfg -> intended/XT.cfg in the thorough tier when that file exists"""
    import os
    t = cfg.replace(".cfg", "T.cfg")
    return t if tier == "thorough" and os.path.exists(os.path.join(common.SPEC, t)) else cfg


def model_step(v, cfg, need=(), module="MCRun.tla", workers=None):
    r = run_tlc(module, cfg, workers=workers or min(12, common.NCPU))
    require_tlc_ok(r, cfg, need_actions=need)
    v.add_tlc(r, cfg)
    log("[tlc] %s: %d distinct states, %d generated, depth %d, %.1fs" % (cfg, r.distinct, r.generated, r.depth, r.wall))
    return r


def expect_counterexample(v, cfg, invariants):
    """Regression for the model itself: an as-found / known-finding configuration must still be refuted."""
    r = run_tlc("MCRun.tla", cfg, workers=min(8, common.NCPU), coverage=False)
    if r.violated not in invariants:
        raise common.ToolError("expected TLC to refute one of %s in %s but got violated=%s error=%s" % (
            invariants, cfg, r.violated, (r.error or "")[:300]))
    v.cov.setdefault("expected_counterexamples", []).append({"cfg": cfg, "violated": r.violated,
                                                             "states_generated": r.generated})
    log("[tlc] %s: counterexample for %s found as expected (%d states)" % (cfg, r.violated, r.generated))


def apalache_alloc(v):
    """Unbounded IDs: Apalache discharges the inductive invariant of spec/alloc/Alloc.tla (base case, inductive step from an
    arbitrary state, invariant => safety) and must refute the variant with process death inside a run."""
    import subprocess
    import shutil
    import os
    d = os.path.join(common.SPEC, "alloc")
    out_dir = os.path.join(common.SCRATCH_ROOT, "verif-apalache-%d" % os.getpid())
    steps = [("base", ["--init=Init", "--inv=IndInv", "--length=0", "AllocApa.tla"], "NoError"),
             ("step", ["--init=IndInit", "--inv=IndInv", "--length=1", "AllocApa.tla"], "NoError"),
             ("implies-safety", ["--init=IndInit", "--inv=Safety", "--length=0", "AllocApa.tla"], "NoError"),
             ("kill-variant-refuted", ["--init=IndInit", "--next=NextK", "--inv=IndInv", "--length=1", "AllocKill.tla"], "Error")]
    res = []
    for name, args, want in steps:
        p = subprocess.run(["apalache-mc", "check", "--out-dir=" + out_dir] + args, cwd=d, stdout=subprocess.PIPE,
                           stderr=subprocess.STDOUT, text=True, timeout=1800)
        m = [l for l in p.stdout.splitlines() if "The outcome is:" in l]
        got = m[-1].split("The outcome is:")[1].split()[0] if m else "none"
        res.append({"obligation": name, "outcome": got})
        if got != want:
            shutil.rmtree(out_dir, ignore_errors=True)
            raise common.ToolError("Apalache obligation %s: expected %s, got %s\n%s" % (name, want, got, p.stdout[-1500:]))
    shutil.rmtree(out_dir, ignore_errors=True)
    for junk in ("_apalache-out", "tmp"):
        shutil.rmtree(os.path.join(d, junk), ignore_errors=True)
    v.cov["apalache_inductive_invariant"] = res
    log("[apalache] Alloc.tla: inductive invariant discharged for unbounded IDs (%s)" % ", ".join(r["obligation"] for r in res))


def _unq(line, tag):
    body = line[len(tag) + 2:-1].replace('\\"', '"').replace("\\\\", "\\")
    return json.loads(body)


def tlc_dump(r, tag):
    out, seen = [], set()
    for line in r.out.splitlines():
        line = line.strip()
        if line.startswith('"%s|' % tag):
            if line in seen:
                continue
            seen.add(line)
            out.append(_unq(line, tag))
    return out


def simulate_histories(cfg, num, depth=300):
    """Behaviours of the model (developer edits and runs) printed by the DumpHist pseudo-invariant."""
    r = run_tlc("MCRun.tla", cfg, workers=1, simulate=num, depth=depth, coverage=False, seed_val=common.seed() + 1,
                timeout=900)
    if r.violated or (r.error and "HIST|" not in r.out):
        raise common.ToolError("simulation failed on %s: %s %s" % (cfg, r.violated, (r.error or "")[:500]))
    hists = tlc_dump(r, "HIST")
    keys = [json.dumps(h["hist"], sort_keys=True) for h in hists]
    keep = []
    for i, h in enumerate(hists):
        pre = keys[i][:-1]
        if any(j != i and keys[j].startswith(pre) and len(keys[j]) > len(keys[i]) for j in range(len(hists))):
            continue
        keep.append(h)
    return keep, r


def scen_from_model(state, name, structured=False, use_cache=None, base=0, maxid=None, **kw):
    """A Scenario from a model state {tree, lock, present, bad}; abstract IDs are embedded with `base`."""
    nfiles = len(state["tree"])
    names = ["f%d.rs" % (i + 1) for i in range(nfiles)]

    def conv(slots):
        return [S(s["uid"], ref=None if s["ref"] < 0 else s["ref"] + base, kind=s["kind"]) for s in slots]
    tree = {names[i]: conv(state["tree"][i]) for i in range(nfiles) if (i + 1) in state["present"]}
    lock = None if state["lock"] == -2 else ("corrupt" if state["lock"] == -1 else state["lock"])
    return rl.Scenario(name, tree, lock=lock, structured=structured, names=names, use_cache=use_cache, base=base,
                       maxid=maxid, bad=tuple(names[i - 1] for i in state.get("bad", [])), **kw)


def replay_model_histories(binary, hists, batch, v):
    jobs = []
    for i, mh in enumerate(hists):
        structured = (i % 2 == 1)
        sc = scen_from_model(mh["hist"][0], "model-history-%d" % i, structured=structured)
        res = rl.planned_runs(binary, sc, [[("model", mh["hist"][1:])]], batch, v)
        fin = res[0]["final"]
        names = sc.names
        mrefs = len([s for f in mh["tree"] for s in f if s["ref"] >= 0])
        rrefs = len([s for n in fin["tree"] for s in fin["tree"][n] if s["ref"] is not None])
        mhas = sorted((s["uid"], s["ref"] >= 0) for f in mh["tree"] for s in f)
        rhas = sorted((s["uid"], s["ref"] is not None) for n in fin["tree"] for s in fin["tree"][n])
        if (mrefs, mhas, mh["lock"]) != (rrefs, rhas, fin["lock"]):
            v.drift.append("model history %d: predicted %d refs lock=%s, observed %d refs lock=%s" % (
                i, mrefs, mh["lock"], rrefs, fin["lock"]))


LT_LINE = {"header": "# This file is maintained by Breadlog, a comment line", "blank": "", "value": "next_reference_id: {v}",
           "valuecmt": "next_reference_id: {v} # bumped by hand", "valuesp": "next_reference_id:    {v}   ",
           "otherkey": "some_other_key: 1", "garbage": "this is not, a mapping", "conflict": "<<<<<<< HEAD",
           "longtail": "# " + "x" * 300,
           # not valid UTF-8 (written byte for byte): a Latin-1 character in a comment, binary rubbish
           "latin1cmt": "# caf\udce9 au lait", "binary": "\udcff\udcfe\x00\x01\udc80"}
LT_VALUE = {"small": "7", "max": "4294967295", "zero": "0", "over": "4294967296", "neg": "-7", "word": "abc", "empty": "",
            "float": "7.5", "quoted": '"7"', "plus": "+7", "hex": "0x7", "lead0": "007"}


def _locktext_job(job):
    binary, case = job
    f = case["f"]
    nl = "\r\n" if f["ending"] == "crlf" else "\n"
    lines = [LT_LINE[k].format(v=LT_VALUE[f["v"]]) for k in f["lines"]]
    text = nl.join(lines) + (nl if (f["final"] == "nl" and lines) else "")
    P = rl.bl.Project(tag="lt")
    try:
        P.write_sources({"f1.rs": rl.bl.render_file("f1.rs", [S(11)], False), "f2.rs": rl.bl.render_file("f2.rs", [S(21, ref=3)], False)})
        with open(P.lock_path, "wb") as fh:
            fh.write(text.encode("utf-8", "surrogateescape"))
        r = rl.bl.run_breadlog(binary, P.config_path, tmpdir=P.tmp, shim=False, timeout=60)
        after = rl.bl.abstract_file(P.read_sources()["f1.rs"].decode("utf-8", "replace"), False)
        got = after[0]["ref"] if after else None
        return {"exit": r.exit_class, "id": got, "lock_after": P.get_lock(), "text": text.encode("utf-8", "surrogateescape").decode("latin-1")}
    finally:
        P.close()


def locktext_step(v, binary, tier):
    """C16: every lock file text LockText.tla enumerates whose reading the property decides: a usable value makes the run
    start from it, anything unparsable makes it scan the code (largest ID + 1); either way the run leaves a lock that
    parses to the next ID."""
    import multiprocessing
    cfg = "intended/LockTextT.cfg" if tier == "thorough" else "intended/LockTextQ.cfg"
    r = run_tlc("LockText.tla", cfg, workers=4, coverage=False)
    require_tlc_ok(r, cfg)
    v.add_tlc(r, cfg)
    cases = [c for c in tlc_dump(r, "LOCK") if c["reading"] != "any" and not (c["reading"] == "value" and c["f"]["v"] != "small")]
    vals = [c for c in cases if c["reading"] == "value"]
    ign = [c for c in cases if c["reading"] == "ignored"]
    if tier != "thorough":
        rnd = random.Random(common.seed() + 5)
        rnd.shuffle(ign)
        ign = ign[:1500]
    chosen = vals + ign
    log("[tlc] %s: %d lock texts decided by the property (%d usable, %d unusable) replayed" % (cfg, len(chosen), len(vals), len(ign)))
    with multiprocessing.get_context("fork").Pool(max(2, min(common.NCPU - 2, 14))) as pool:
        results = pool.map(_locktext_job, [(binary, c) for c in chosen], chunksize=32)
    for c, res in zip(chosen, results):
        v.evaluated(("locktext", json.dumps(c["f"], sort_keys=True)))
        want = 7 if c["reading"] == "value" else 4
        ok = res["exit"] == 0 and res["id"] == want and res["lock_after"] == want + 1
        if not ok:
            v.violation({"check": "LockReading", "reading": c["reading"], "value": c["f"]["v"], "ending": c["f"]["ending"],
                         "lines": ",".join(c["f"]["lines"])},
                        "C16: lock text %r (%s): expected the new reference to be %d and the lock to read %d afterwards; exit %s, "
                        "reference %s, lock %s" % (res["text"][:120], c["reading"], want, want + 1, res["exit"], res["id"], res["lock_after"]),
                        {"lock_text": res["text"], "case": c, "observed": {k: res[k] for k in ("exit", "id", "lock_after")}})
    v.cov["lock_texts"] = len(chosen)


def env_step(v, binary, batch, tier, mode="edit", follow="c02"):
    """Environments enumerated by Env.tla (TMPDIR kind x spelling of the configuration path x spelling of source_dir x
    style x lock), each replayed as check, edit, check (+ developer edits and further runs).  The properties are judged
    by Observe like every other run; Env.tla's predictions about the edit run are compared as a drift test."""
    cfg = "intended/EnvT.cfg" if tier == "thorough" else "intended/EnvQ.cfg"
    r = run_tlc("MCEnv.tla", cfg, workers=2, coverage=False)
    require_tlc_ok(r, cfg)
    v.add_tlc(r, cfg)
    envs = tlc_dump(r, "ENV")
    log("[tlc] %s: %d environments" % (cfg, len(envs)))
    n = 0
    for rec in envs:
        e = rec["env"]
        tree = {"f1.rs": [S(11), S(12, ref=3)], "f2.rs": [S(21), S(22)]}
        sc = rl.Scenario("env-%s-%s-%s-%s-%s" % (e["tmp"], e["cfg"], e["srcdir"], e["style"], e["lock"]), tree,
                         lock=(None if e["lock"] == "absent" else 10), structured=(e["style"] == "structured"),
                         env={"tmp": e["tmp"], "cfg": e["cfg"], "srcdir": e["srcdir"]},
                         head_style=("plain", "gap_before_bang", "gap_after_bang", "comment_before_bang")[n % 4])
        steps = [("check", ""), ("edit", ""), ("check", "")] if mode == "edit" else [("check", "")]
        res = rl.planned_runs(binary, sc, [steps], batch, v, follow=(follow if mode == "edit" else None),
                              sigbase={"env_tmp": e["tmp"], "env_cfg": e["cfg"], "env_srcdir": e["srcdir"]})
        n += 1
        exits = res[0]["exits"]
        want = [("nonzero",), (0,) if rec["exit"] == "zero" else ("nonzero",)]
        got = exits[:2] if mode == "edit" else exits[:1]
        for w, g in zip(want, got):
            if g not in w:
                v.drift.append("environment %s: Env.tla predicts exits %s, observed %s" % (json.dumps(e), want[:len(got)], got))
                break
    v.cov["environments"] = n
    return n


# ---------------------------------------------------------------------------------------------

def c01(tier):
    v = Verdict("C01", tier)
    r = model_step(v, "intended/C01.cfg", need=("Pass1File", "Pass2Next", "WriteSlot", "RenameTmp", "LockWrite"))
    if tier == "thorough":
        model_step(v, "intended/C01big.cfg")
    expect_counterexample(v, "asfound/C01wrap.cfg", ("InvUniqueInRange",))
    if tier == "thorough":
        apalache_alloc(v)
    pre = tlc_dump(r, "INIT")
    log("[dump] %d pre-states from TLC" % len(pre))
    binary = common.build_breadlog()
    batch = rl.Batch()
    MAXID = 4

    def nontrivial(st):
        return any(s["ref"] < 0 and s["kind"] == "plain" for f in st["tree"] for s in f)

    def boundary(st):
        refs = [s["ref"] for f in st["tree"] for s in f if s["ref"] >= 0]
        return nontrivial(st) and (MAXID in refs or MAXID - 1 in refs or st["lock"] >= MAXID - 1 or 0 in refs)
    nt = [st for st in pre if nontrivial(st)]
    rnd = random.Random(common.seed())
    if tier == "thorough":
        chosen = nt
    else:
        b = [st for st in nt if boundary(st)]
        rnd.shuffle(b)
        rest = [st for st in nt if not boundary(st)]
        rnd.shuffle(rest)
        chosen = b[:260] + rest[:260]
    jobs = 0
    scen_steps = []
    for i, st in enumerate(chosen):
        has_ref = any(s["ref"] >= 0 for f in st["tree"] for s in f)
        for cache in ((True, False) if tier == "thorough" else (rnd.choice((True, False)),)):
            for structured in ((False, True) if tier == "thorough" else (bool(i % 2),)):
                embeds = [0]
                # the high embedding maps MaxId to u32::MAX; "maximum over nothing is 0 -> start at 1" is not
                # shift-invariant, so it needs an existing ID or a usable lock value
                # ... and "a recorded next ID of 0 is ignored" is not shift-invariant either: abstract lock 0 stays at base 0
                if (has_ref or (cache and st["lock"] >= 0)) and st["lock"] != 0:
                    embeds.append(rl.bl.U32MAX - MAXID)
                for base in embeds:
                    sc = scen_from_model(st, "pre-%d-%s-%s-%s" % (i, "c" if cache else "n", "s" if structured else "u",
                                                                   "hi" if base else "lo"),
                                         structured=structured, use_cache=cache, base=base)
                    scen_steps.append(sc)
    # environment dimension: file size (a large file of ordinary code that carries the tree's largest IDs, in any
    # order) and where TMPDIR is
    for structured in (False, True):
        for cache, lock in ((None, None), (False, 2), (True, 9)):
            for nbytes in ((400000, 1600000) if tier == "thorough" else (900000,)):
                scen_steps.append(rl.Scenario("large-file-%d" % nbytes, {"big.rs": [S(11, ref=1), S(12, ref=7), S(13, ref=3)],
                                                                          "small.rs": [S(21), S(22)]},
                                              lock=lock, use_cache=cache, structured=structured, pad=nbytes, pad_mode="code",
                                              names=["big.rs", "small.rs"]))
            scen_steps.append(rl.Scenario("unordered-ids", {"f1.rs": [S(11, ref=1), S(12, ref=7), S(13, ref=3), S(14)],
                                                            "f2.rs": [S(21), S(22, ref=5), S(23, ref=2)]},
                                          lock=lock, use_cache=cache, structured=structured))
    # source spelling: every statement of the tree written with a gap or a comment around the `!` (no file contains
    # the text `name!(`); the file that carries the existing IDs is spelled like that too
    for hs in ("gap_before_bang", "gap_after_bang", "comment_before_bang"):
        for structured in (False, True):
            for cache, lock in ((None, None), (False, 2)):
                scen_steps.append(rl.Scenario("head-" + hs, {"f1.rs": [S(11, ref=1), S(12, ref=7), S(13, ref=3)], "f2.rs": [S(21), S(22)]},
                                              lock=lock, use_cache=cache, structured=structured, head_style=hs))
    # literals with quote characters / a trailing backslash in front of the statements that carry the existing IDs
    for kind in range(1, 7):
        for structured, cache, lock in ((False, None, None), (True, False, 2)):
            scen_steps.append(rl.Scenario("literal-prelude-%d" % kind, {"f1.rs": [S(11, ref=1), S(12, ref=7), S(13, ref=3)], "f2.rs": [S(21), S(22)]},
                                          lock=lock, use_cache=cache, structured=structured, literal_prelude=kind))
    # an ignored statement that logs a URL directly above the statement that carries the largest ID
    for structured in (False, True):
        for cache, lock in ((None, None), (False, 2)):
            scen_steps.append(rl.Scenario("ignored-url-neighbour", {"f1.rs": [S(11, kind="ignored"), S(12, ref=7), S(13, kind="ignored"), S(14, ref=6)],
                                                                    "f2.rs": [S(21), S(22, ref=3), S(23), S(24)]},
                                          lock=lock, use_cache=cache, structured=structured, head_style="urlmsg"))
    # where the files are and how the macros are configured: existing IDs below directories a tool might want to skip
    # (target, hidden, deep), and macro names configured under two modules with statements qualified either way
    for structured in (False, True):
        for cache, lock in ((None, None), (False, 2)):
            scen_steps.append(rl.Scenario("nested-dirs", {"target/gen.rs": [S(11, ref=9)], ".hidden/h.rs": [S(12, ref=7)],
                                                          "a/b/c/deep.rs": [S(13, ref=8)], "node_modules/x.rs": [S(14, ref=6)],
                                                          "main.rs": [S(21), S(22)]},
                                          lock=lock, use_cache=cache, structured=structured,
                                          names=["target/gen.rs", ".hidden/h.rs", "a/b/c/deep.rs", "node_modules/x.rs", "main.rs"]))
            scen_steps.append(rl.Scenario("two-modules", {"f1.rs": [S(11, ref=1), S(12, ref=5), S(13, ref=3), S(14, ref=7), S(15, ref=2), S(16, ref=6)],
                                                          "f2.rs": [S(21), S(22), S(23), S(24)]},
                                          lock=lock, use_cache=cache, structured=structured, head_style="twomodules"))
    # run them (one edit run each), in parallel
    import multiprocessing
    jobs = [{"binary": binary, "scen": sc, "steps": [("edit", "")], "follow": None} for sc in scen_steps]
    results = rl.run_jobs(jobs)
    for sc, res in zip(scen_steps, results):
        batch.add_events(res["events"], {"scenario": sc.name, "scenario_desc": sc.describe(), "steps": [["edit", ""]],
                                         "sig": {"mode": "edit", "fault": "none", "structured": bool(sc.kw["structured"]),
                                                 "embedding": "high" if sc.kw["base"] else "low"}})
        v.evaluated((json.dumps(sc.tree, sort_keys=True), str(sc.kw["lock"]), sc.kw["use_cache"], sc.kw["structured"], sc.kw["base"]))
        v.sample({"tree": sc.tree, "lock": sc.kw["lock"], "use_cache": sc.kw["use_cache"], "structured": sc.kw["structured"],
                  "exits": res["exits"], "after": res["final"]})
    env_step(v, binary, batch, tier)
    # "every ID inserted by an edit run" also covers runs in which some file could not be updated: write failures at
    # every temp-file operation, several files with several statements each, small and larger than the write cache
    for structured in (False, True):
        for pad in (0, 60000):
            sc = rl.Scenario("faulted-run", {"f0.rs": [S(1, ref=1), S(2, ref=2)], "f1.rs": [S(11), S(12), S(13)],
                                             "f2.rs": [S(21), S(22), S(23)], "f3.rs": [S(31), S(32), S(33)]},
                             lock=None, structured=structured, pad=pad)
            kinds = ["ENOSPC", "EIO", "short"] if tier == "thorough" else ["ENOSPC"]
            K, n = rl.sweep(binary, sc, "edit", kinds, batch, v, only_ops=("tmp.create", "tmp.write", "tmp.rename"))
            log("[sweep] %s pad=%d: %d operations, %d runs" % (sc.name, pad, K, n))
    log("[replay] %d pre-state executions (%d model pre-states with something to insert, of %d)" % (len(jobs), len(chosen), len(pre)))
    batch.judge(v, {"C01"})
    v.cov["exhaustive"] = (tier == "thorough")
    v.cov["rule"] = ("every initial state of intended/C01.cfg (2 files x <=2 statements, existing IDs in {none,0,1,Max-1,Max}, "
                     "unusable/ignored statements, every lock value) that has a statement to fill, concretised with base 0 and with "
                     "Max = u32::MAX, both styles, cache on/off (quick tier: boundary states + seeded sample); distinct = concrete scenario")
    v.assumptions += ["the allocator only compares, increments and tests IDs, so shifting all IDs by a constant preserves its behaviour "
                      "(used to reach the u32 boundary with a small model)"]
    return v.finish()


def c02(tier):
    v = Verdict("C02", tier)
    model_step(v, "intended/C02.cfg" if tier == "thorough" else "intended/C02quick.cfg",
               need=("DevAdd", "DevDel", "DevDelFile", "DevAddFile", "Signal", "LockWrite", "RenameTmp", "CreateTmp"))
    expect_counterexample(v, "asfound/C02kill.cfg", ("IdleLockDominates", "InvNoReuse"))
    expect_counterexample(v, "asfound/C02lockfault.cfg", ("IdleLockDominates", "InvNoReuse"))
    if tier == "thorough":
        apalache_alloc(v)
    binary = common.build_breadlog()
    batch = rl.Batch()
    hists, r = simulate_histories("intended/C02sim.cfg", 400 if tier == "thorough" else 60)
    log("[sim] %d distinct model histories" % len(hists))
    replay_model_histories(binary, hists, batch, v)
    kinds = ["EIO", "INT", "TERM", "kill_before", "kill_after"]
    if tier == "thorough":
        kinds += ["ENOSPC", "EACCES", "short"]
    scens = []
    for structured in (False, True):
        scens.append(rl.Scenario("stale-lock", {"f1.rs": [S(11), S(12, ref=3)], "f2.rs": [S(21), S(22)]},
                                 lock=10, structured=structured))
        scens.append(rl.Scenario("no-lock-yet", {"f1.rs": [S(11)], "f2.rs": [S(21, ref=4), S(22)],
                                                 "f3.rs": [S(31)]}, lock=None, structured=structured))
    if tier != "thorough":
        scens = scens[:3]
    # the top of the ID range: a run that exhausts the range must leave a lock that still dominates
    hi = rl.bl.U32MAX - 9
    for structured in (False, True):
        for lock in (7, 8, None):
            sc = rl.Scenario("near-u32-max", {"f1.rs": [S(11), S(12, ref=hi + 6)], "f2.rs": [S(21), S(22)], "f3.rs": [S(31)]},
                             lock=lock, base=hi, structured=structured)
            rl.planned_runs(binary, sc, [[("edit", "")]], batch, v, follow="c02", sigbase={"embedding": "high"})
    for sc in scens:
        K, n = rl.sweep(binary, sc, "edit", kinds, batch, v, follow="c02")
        log("[sweep] %s: %d operations, %d histories" % (sc.name, K, n))
    # environment dimension: TMPDIR on another file system / not existing
    for structured in (False, True):
        for env in ({"tmp_on_other_fs": True}, {"tmp_missing": True}):
            for lock in (None, 10):
                sc = rl.Scenario("env-" + "-".join(env), {"f1.rs": [S(11), S(12, ref=3)], "f2.rs": [S(21), S(22)]},
                                 lock=lock, structured=structured, **env)
                rl.planned_runs(binary, sc, [[("edit", "")]], batch, v, follow="c02", sigbase=dict(env))
    # the lock as an editor, a merge or a checkout can leave it: CRLF line endings, a trailing comment, a long comment
    # line (the file is longer than what Breadlog writes), extra blanks - all valid spellings of the same value
    LOCKS = {"crlf": bl_lock_text(10).replace("\n", "\r\n"),
             "trailing-comment": bl_lock_text(10).rstrip("\n") + "   # bumped by hand, do not lower this value again please\n",
             "long-comment": bl_lock_text(10) + "# " + "x" * 300 + "\n",
             "blanks": "\n\nnext_reference_id:    10   \n\n\n"}
    for structured in (False, True):
        for name, text in LOCKS.items():
            sc = rl.Scenario("lock-" + name, {"f1.rs": [S(11), S(12, ref=3)], "f2.rs": [S(21), S(22)]}, lock=text, structured=structured)
            rl.planned_runs(binary, sc, [[("edit", "")]], batch, v, follow="c02", sigbase={"lock_text": name})
    # faults, stop requests and kills in the SECOND run of a history: the first run has written IDs, the developer has deleted
    # the highest-numbered statement and added others (so the code alone no longer tells which IDs were used)
    for structured in ((False, True) if tier == "thorough" else (False,)):
        sc = rl.Scenario("second-run", {"f1.rs": [S(11), S(12)], "f2.rs": [S(21)]}, lock=None, structured=structured)
        K, n = rl.sweep(binary, sc, "edit", kinds, batch, v, follow="c02",
                        pre_steps=[("edit", ""), ("devfn", "delete_highest_and_add", 7)])
        log("[sweep] %s (second run of a history): %d operations, %d histories" % (sc.name, K, n))
    # an in-scope file (whichever position the directory order gives it) holds a token whose number does not fit the ID type
    over = {"src/aa_over.rs": 'fn a() { info!("[ref: 9999999999] over the range"); }\n',
            "src/zz_over.rs": 'fn z() { info!("[ref: 4294967296] just over"); }\n'}
    for lock in (None, 10):
        # ... created after the ordinary files and before them (the walk is not sorted: either may come first)
        for ex in (over, {"^" + k: t for k, t in over.items()}):
            sc = rl.Scenario("over-range-token", {"f1.rs": [S(11), S(12, ref=3)], "f2.rs": [S(21), S(22)], "mm.rs": [S(31)]},
                             lock=lock, extra_files=ex)
            rl.planned_runs(binary, sc, [[("edit", "")]], batch, v, follow="c02", sigbase={"over_range_token": True})
    # a later run of a history (after the highest-numbered statement was deleted) cannot examine / open / read the lock
    for structured in (False, True):
        sc = rl.Scenario("lock-unreadable-later", {"f1.rs": [S(11), S(12)], "f2.rs": [S(21)]}, lock=None, structured=structured)
        rl.planned_runs(binary, sc, [[("edit", "")]], batch, v, follow="c02_lockread", sigbase={"lock_read_fault": True})
    # statements that cannot take a reference (non-literal ref value) before statements that need one, in the same file
    for lock in (None, 10):
        sc = rl.Scenario("unusable-first", {"f1.rs": [S(11, kind="unusable"), S(12), S(13, kind="unusable"), S(14)],
                                            "f2.rs": [S(21), S(22, kind="unusable"), S(23)]}, lock=lock, structured=True)
        rl.planned_runs(binary, sc, [[("edit", "")]], batch, v, follow="c02")
    env_step(v, binary, batch, tier)
    batch.judge(v, {"C02"})
    v.cov["rule"] = ("(a) behaviours of BreadlogRun (developer edits and runs) obtained by TLC simulation and replayed end to "
                     "end; (b) every operation k of an edit run x {EIO, SIGINT, SIGTERM, kill before, kill after} followed by "
                     "'delete the highest-numbered statement, add statements, edit' twice; Observe.tla keeps the ghost relation "
                     "ID -> statement over the whole history; distinct = (scenario, k, kind) or the step list")
    v.assumptions += ["developer edits are modelled as adding/deleting whole statements and files",
                      "the lock file is kept between runs (never deleted by the developer)"]
    return v.finish()


def c04(tier):
    v = Verdict("C04", tier)
    model_step(v, tiered("intended/C04.cfg", tier), need=("ScanFile", "Signal", "Kill"))
    binary = common.build_breadlog()
    batch = rl.Batch()
    n = 0
    for structured in (False, True):
        for use_cache in (None, True, False):
            for lock in (None, 7, 2, 3, "corrupt", "empty", "dir", "loop"):
                for tree in ({"f1.rs": [S(11), S(12, ref=3)], "f2.rs": [S(21)]},
                             {"f1.rs": [S(11, ref=1)], "f2.rs": [S(21, ref=2), S(22, kind="unusable")]},
                             {"f1.rs": [S(11)], "f2.rs": []}):
                    for bad in ((), ("f2.rs",)):
                        sc = rl.Scenario("cfg-%d" % n, tree, lock=lock, structured=structured, use_cache=use_cache,
                                         bad=bad, extra_files=EXTRA, tmp_leftovers=(n % 2 == 0))
                        n += 1
                        rl.planned_runs(binary, sc, [[("check", "")]], batch, v,
                                        sigbase={"use_cache": use_cache, "lock": str(lock)})
    for cc in ("missing", "invalid", "nosourcedir", "sourcedirfile", "noinscope", "emptyext"):
        sc = rl.Scenario("cfgerr-" + cc, {"f1.rs": [S(11)]}, lock=3, config_class=cc, extra_files=EXTRA)
        rl.planned_runs(binary, sc, [[("check", "")]], batch, v, sigbase={"config_class": cc})
    # TMPDIR names a directory that does not exist: nothing may be created there either
    for structured in (False, True):
        for tree in ({"f1.rs": [S(11), S(12, ref=3)]}, {"f1.rs": [S(11, ref=1)]}):
            sc = rl.Scenario("tmpdir-missing", tree, lock=5, structured=structured, tmp_missing=True, extra_files=EXTRA)
            rl.planned_runs(binary, sc, [[("check", "")]], batch, v, sigbase={"tmp_missing": True})
    # the process environment: variables by which CI systems name files a tool may write to, and a standard output that
    # cannot be written (full device, reader gone) - whatever that does to the run, nothing may be created or changed
    for structured in (False, True):
        for tree in ({"f1.rs": [S(11), S(12, ref=3)], "f2.rs": [S(21)]}, {"f1.rs": [S(11, ref=1)], "f2.rs": [S(21, ref=2)]}):
            for kw in ({"ci_env": True}, {"stdout_to": "full"}, {"stdout_to": "closed-pipe"}, {"ci_env": True, "stdout_to": "full"}):
                sc = rl.Scenario("env-" + "-".join("%s" % v1 for v1 in kw.values()), tree, lock=5, structured=structured,
                                 extra_files=EXTRA, **kw)
                rl.planned_runs(binary, sc, [[("check", "")]], batch, v, sigbase={k: str(v1) for k, v1 in kw.items()})
    env_step(v, binary, batch, tier, mode="check")
    kinds = ["EIO", "EACCES", "TERM", "INT", "kill_after"] if tier == "thorough" else ["EIO", "TERM", "kill_after"]
    for structured in (False, True):
        for sc in rl.small_trees(structured=structured, lock=5):
            sc.kw["extra_files"] = EXTRA
            rl.sweep(binary, sc, "check", kinds, batch, v)
    batch.judge(v, {"C04"})
    v.cov["rule"] = ("--check on every combination of (structured, use_cache omitted/true/false, lock absent/valid/corrupt/"
                     "empty, tree class, unreadable file), configuration error classes, plus faults/signals/kill at every "
                     "operation of a check run; no mutating operation in the trace and an identical deep snapshot (names, types, "
                     "modes, inodes, mtimes, contents) of project, config and temp directories")
    return v.finish()


def c05(tier):
    v = Verdict("C05", tier)
    r = model_step(v, "intended/C05.cfg", need=("ScanFile", "RenameTmp"))
    binary = common.build_breadlog()
    batch = rl.Batch()
    rnd = random.Random(common.seed())
    # (a) model pre-states: check, then edit, then check
    r1 = run_tlc("MCRun.tla", "intended/C01.cfg", workers=min(12, common.NCPU), coverage=False)
    pre = [st for st in tlc_dump(r1, "INIT")]
    rnd.shuffle(pre)
    pre = pre[:(1500 if tier == "thorough" else 250)]
    scs = []
    for i, st in enumerate(pre):
        scs.append(scen_from_model(st, "pre-%d" % i, structured=bool(i % 2), use_cache=(None, True, False)[i % 3],
                                   crlf=(i % 5 == 0), unicode_prelude=(i % 3 == 0)))
    jobs = [{"binary": binary, "scen": sc, "steps": [("check", ""), ("edit", ""), ("check", "")]} for sc in scs]
    for sc, res in zip(scs, rl.run_jobs(jobs)):
        batch.add_events(res["events"], {"scenario": sc.name, "scenario_desc": sc.describe(),
                                         "steps": [["check", ""], ["edit", ""], ["check", ""]],
                                         "sig": {"mode": "check+edit", "fault": "none", "structured": bool(sc.kw["structured"])}})
        v.evaluated((json.dumps(sc.tree, sort_keys=True), str(sc.kw["lock"]), sc.kw["structured"], sc.kw["crlf"]))
        v.sample({"tree": sc.tree, "structured": sc.kw["structured"], "exits": res["exits"]})
    # (b) unreadable files next to readable ones; all files unreadable
    for structured in (False, True):
        for bad in (("f2.rs",), ("f1.rs", "f2.rs")):
            sc = rl.Scenario("bad-%d" % len(bad), {"f1.rs": [S(11), S(12, ref=3)], "f2.rs": [S(21)]}, structured=structured, bad=bad)
            rl.planned_runs(binary, sc, [[("check", ""), ("edit", ""), ("check", "")]], batch, v, sigbase={"bad": len(bad)})
    # (c) rename failures: the printed count must be the number actually inserted
    for sc in rl.small_trees():
        rl.planned_runs(binary, sc, [[("edit", "op=rename,nth=1:errno=5")], [("edit", "op=rename,nth=0:errno=18")]], batch, v)
    # the printed count when a file fails after IDs were taken for it: write failures at every scratch-file operation, and the
    # ID range running out in the middle of a file
    for structured in (False, True):
        sc = rl.Scenario("count-under-faults", {"f1.rs": [S(11), S(12), S(13)], "f2.rs": [S(21), S(22)], "f3.rs": [S(31), S(32, ref=2)]},
                         structured=structured, pad=30000)
        rl.sweep(binary, sc, "edit", ["ENOSPC"], batch, v, only_ops=("tmp.create", "tmp.write"))
        hi = rl.bl.U32MAX - 9
        for lock in (8, 9):
            sc = rl.Scenario("count-range-runs-out", {"f1.rs": [S(11), S(12), S(13)], "f2.rs": [S(21), S(22)]}, lock=lock, base=hi,
                             structured=structured)
            rl.planned_runs(binary, sc, [[("edit", "")]], batch, v, sigbase={"embedding": "high"})
    # an extension that is configured twice (literally, or in two letter cases) still means every file once
    for structured in (False, True):
        for exts in (["rs", "rs"], ["rs", "RS"], ["txt", "rs", "rs"]):
            sc = rl.Scenario("ext-" + "-".join(exts), {"f1.rs": [S(11), S(12, ref=3)], "f2.rs": [S(21), S(22)]},
                             structured=structured, extensions=exts)
            rl.planned_runs(binary, sc, [[("check", ""), ("edit", ""), ("check", "")]], batch, v, sigbase={"extensions": ",".join(exts)})
    # a lock that exists but cannot be read (a directory of that name, a symbolic link to itself): checking does not need it
    for structured in (False, True):
        for lockkind in ("dir", "loop"):
            for tree in ({"f1.rs": [S(11, ref=1)], "f2.rs": [S(21, ref=2)]}, {"f1.rs": [S(11), S(12, ref=3)], "f2.rs": [S(21)]}):
                sc = rl.Scenario("lock-" + lockkind, tree, lock=lockkind, structured=structured)
                rl.planned_runs(binary, sc, [[("check", "")]], batch, v, sigbase={"lock_kind": lockkind})
    env_step(v, binary, batch, tier, follow="check")
    batch.judge(v, {"C05"})
    # (d) statement level: what precedes the statement on its line (multi-byte text, tabs), CRLF and multi-line layouts,
    #     targets and key-values: every reported (line, column) must be where the following edit inserts
    import checks_stmt as cs
    cases = cs.tlc_cases(v, "intended/StmtLayoutQ.cfg")
    rnd.shuffle(cases)
    keep = [c for c in cases if c["s"]["context"] in ("aftermultibyte", "tabindent", "afterstring", "afterstmt") or c["s"]["layout"] in ("crlf", "tabs")
            or c["s"]["msg"] in ("unicodefirst", "unicode")]
    cases = keep[:(60000 if tier == "thorough" else 12000)] + cases[:(40000 if tier == "thorough" else 6000)]

    def relabel(prop, r, text):
        if r is not None and ("reported location" in text or "missing-reports" in text):
            import re as _re
            m = _re.search(r"missing-reports=(\d+) unusable-reports=\d+ insertions=\[(.*)\]", text)
            if "reported location" in text or (m and int(m.group(1)) != (m.group(2).count("(") if m.group(2) else 0)):
                return "C05"
        return prop
    cs.run_cases(binary, cases, v, {"C05"}, "layout", relabel=relabel)
    # a statement on the very first line of a file, with multi-byte text before it
    import stmt as st
    packs = []
    for mode in ("unstructured", "structured"):
        for ctx in ("aftermultibyte", "afterstmt", "linestart"):
            pk = st.Pack("first_%s_%s.rs" % (mode[0], ctx), header=False)
            base = {"head": "bare", "target": "none", "kvs": [], "msg": "unicodefirst", "dir": "none", "trailing": "none", "layout": "space"}
            for j in range(3):
                pk.add(st.render_case({"s": dict(base, context=ctx if j == 0 else "afterstmt"), "mode": mode, "outcome": "missing",
                                       "sep": ";" if mode == "structured" else "msg"}, 9100 + j))
            pk.finish()
            packs.append((pk, mode == "structured"))
    cs.run_cases(binary, None, v, {"C05"}, "first-line", packs=packs, relabel=relabel)
    # counts at the width of an exit status: 255, 256, 257, 512 statements lacking a reference
    batch3 = rl.Batch()
    for nmiss in (255, 256, 257, 512):
        tree = {"f1.rs": [S(1000 + i) for i in range(nmiss // 2)], "f2.rs": [S(5000 + i) for i in range(nmiss - nmiss // 2)]}
        sc = rl.Scenario("missing-%d" % nmiss, tree, opaque=False)
        rl.planned_runs(binary, sc, [[("check", ""), ("edit", ""), ("check", "")]], batch3, v)
    batch3.judge(v, {"C05"})
    # (e) the verdict under a stop request: whatever was scanned, missing references must not yield exit 0
    batch2 = rl.Batch()
    for structured in (False, True):
        for miss in (1, 2, 3):      # whichever order the directory yields, the incomplete file is not always first
            tree = {"f%d.rs" % i: [S(10 * i + 1, ref=(None if i == miss else i))] for i in (1, 2, 3)}
            sc = rl.Scenario("only-f%d-missing" % miss, tree, structured=structured)
            rl.sweep(binary, sc, "check", ["INT", "TERM"], batch2, v)
        sc = rl.Scenario("two-missing-of-three", {"f1.rs": [S(11)], "f2.rs": [S(21, ref=2)], "f3.rs": [S(31)]}, structured=structured)
        rl.sweep(binary, sc, "check", ["TERM"], batch2, v)
    batch2.judge(v, {"C05"})
    v.cov["rule"] = ("check, edit, check on model pre-states (seeded sample in quick tier) rendered with LF/CRLF and multi-byte "
                     "prelude in both styles; reported (file, line) mapped to statements, reported (file, line, column) compared "
                     "with the insertion offsets of the following edit converted by an independent line/column counter")
    return v.finish()


def c06(tier):
    v = Verdict("C06", tier)
    model_step(v, "intended/C06.cfg", need=("ScanFile", "RenameTmp", "DevAdd"))
    binary = common.build_breadlog()
    batch = rl.Batch()
    rnd = random.Random(common.seed() + 6)
    r1 = run_tlc("MCRun.tla", "intended/C01.cfg", workers=min(12, common.NCPU), coverage=False)
    pre = [st for st in tlc_dump(r1, "INIT") if any(s["ref"] < 0 and s["kind"] == "plain" for f in st["tree"] for s in f)
           and st["lock"] != 0]
    rnd.shuffle(pre)
    pre = pre[:(1500 if tier == "thorough" else 250)]
    scs, jobs = [], []
    for i, st in enumerate(pre):
        # stay clear of ID exhaustion: base 0 embedding
        sc = scen_from_model(st, "pre-%d" % i, structured=bool(i % 2), use_cache=(None, True, False)[i % 3],
                             crlf=(i % 4 == 0), pad=(3000 if i % 7 == 0 else 0))
        scs.append(sc)
        steps = [("check", ""), ("edit", ""), ("check", ""), ("edit", ""), ("lock", None)]
        # read-back: remove the lock, add a statement, edit again -> the new ID must exceed every ID just written
        t2 = {n: list(sl) for n, sl in sc.tree.items()}
        jobs.append({"binary": binary, "scen": sc, "steps": steps, "follow": "readback"})
    rl.FOLLOW["readback"] = follow_readback
    for sc, res in zip(scs, rl.run_jobs(jobs)):
        batch.add_events(res["events"], {"scenario": sc.name, "scenario_desc": sc.describe(),
                                         "steps": [list(s) for s in jobs[0]["steps"]], "follow": "readback",
                                         "sig": {"mode": "fixpoint", "fault": "none", "structured": bool(sc.kw["structured"])}})
        v.evaluated((json.dumps(sc.tree, sort_keys=True), str(sc.kw["lock"]), sc.kw["structured"], sc.kw["use_cache"]))
        v.sample({"tree": sc.tree, "structured": sc.kw["structured"], "exits": res["exits"]})
    # 10-digit IDs: the tool must read back its own long tokens (window of 1000 IDs below u32::MAX, no exhaustion)
    hi = rl.bl.U32MAX - 1000
    for structured in (False, True):
        for lock in (None, 20):
            sc = rl.Scenario("ten-digit", {"f1.rs": [S(11), S(12, ref=hi + 3), S(13), S(14)], "f2.rs": [S(21), S(22, ref=hi + 4), S(23)]},
                             lock=lock, base=hi, maxid=1000, structured=structured)
            rl.planned_runs(binary, sc, [[("check", ""), ("edit", ""), ("check", ""), ("edit", ""), ("lock", None)]], batch, v,
                            follow="readback", sigbase={"embedding": "high"})
    # ... and also when a stop request arrived on the way
    for sc in rl.small_trees(structured=False, lock=40) + rl.small_trees(structured=True):
        rl.sweep(binary, sc, "edit", ["TERM", "INT"] if tier == "thorough" else ["TERM"], batch, v, follow="fixpoint")
    # an edit run that exits 0 must leave a tree that passes --check, also when some operation failed on the way
    for structured in (False, True):
        for sc in rl.small_trees(structured=structured):
            rl.sweep(binary, sc, "edit", ["EIO", "ENOSPC"] + (["EACCES", "short"] if tier == "thorough" else []), batch, v,
                     follow="fixpoint", only_ops=("tmp.create", "tmp.write", "tmp.rename"))
    env_step(v, binary, batch, tier, follow="fixpoint")
    batch.judge(v, {"C06"})
    # statement level: every shape of statement must be recognised after its own edit (second check passes, second edit
    # changes nothing)
    import checks_stmt as cs
    cases = cs.tlc_cases(v, "intended/StmtKv.cfg") + cs.tlc_cases(v, "intended/StmtLayoutQ.cfg")
    if tier != "thorough":
        rnd.shuffle(cases)
        cases = cases[:30000]
    cs.run_cases(binary, cases, v, {"C06"}, "roundtrip")
    # ... and the directive files (a directive must govern the same statements before and after the edit)
    dpacks, dsolo = cs.directive_packs(v, tier, cfg_tier="quick")
    cs.run_cases(binary, None, v, {"C06"}, "directives-roundtrip", packs=dpacks, groups_extra=dsolo)
    v.cov["rule"] = ("check, edit, check, edit on model pre-states in both styles (second edit must change no byte and leave the lock "
                     "value), then lock removed + statement added + edit: the new ID must exceed every ID written before (read-back)")
    return v.finish()


def follow_readback(h):
    cur = {n: [dict(x) for x in h.tree[n]] for n in h.names if h.present[n]}
    if not cur:
        return
    n0 = sorted(cur)[0]
    cur[n0].append(S(900))
    h.dev(cur)
    h.run("edit")
    h.run("check")


rl.FOLLOW["readback"] = follow_readback


def binding_selftest(v, binary):
    """DESIGN 3.6: the binding must be live.  A recorded trace is corrupted in one field at a time; Observe must report the
    corresponding property and RunTrace must refuse the run.  A self-test that does not fail is a tool error."""
    import copy
    import history
    sc = rl.Scenario("selftest", {"f1.rs": [S(11), S(12, ref=3)], "f2.rs": [S(21), S(22)]}, lock=None)
    good = rl.exec_job({"binary": binary, "scen": sc, "steps": [("edit", "")]})["events"]
    failed = rl.exec_job({"binary": binary, "scen": sc, "steps": [("edit", "op=rename,nth=1:errno=5")]})["events"]
    results = []

    def observe_reports(evs, prop, check):
        viols, tr, n = history.judge([evs], v)
        return any(p == prop and c == check for p, c, l, d in viols)

    def accepted(evs):
        acc, allr, tr = history.runtrace([evs])
        return len(acc) == len(allr)
    if observe_reports(good, "C07", "AtomicFiles"):
        raise common.ToolError("binding self-test: Observe reports a violation on the uncorrupted trace")
    # RunTrace is implementation-level: after a refactoring that keeps every property the uncorrupted trace may no longer
    # be a behaviour of the model (SPEC-DRIFT); then only the property-level half of the self-test can be demanded
    rt_live = accepted(good) and accepted(failed)
    if not rt_live:
        v.drift.append("binding self-test: the uncorrupted traces are not behaviours of BreadlogRun; RunTrace half skipped")
    # 1. a rename moved before the last write of its temp file
    t = copy.deepcopy(good)
    ri = next(i for i, e in enumerate(t) if e.get("ev") == "op" and e["op"] == "rename")
    wi = max(i for i, e in enumerate(t[:ri]) if e.get("ev") == "op" and e["op"] == "write" and e["cls"] == "tmp")
    t[wi], t[ri] = t[ri], t[wi]
    results.append(("rename before the last write", observe_reports(t, "C07", "AtomicFiles"), not accepted(t)))
    # 2. an inserted ID duplicated in the projected post-state
    t = copy.deepcopy(good)
    end = t[-1]
    refs = [s2 for f in end["files"] for s2 in f if s2["ref"] >= 0]
    new = [s2 for s2 in refs if s2["uid"] in (11, 21, 22)]
    new[1]["ref"] = new[0]["ref"]
    results.append(("duplicate inserted ID", observe_reports(t, "C01", "UniqueInRange"), not accepted(t)))
    # 3. exit status of a run with a failed rename flipped to 0
    t = copy.deepcopy(failed)
    t[-1]["exit"] = 0
    results.append(("exit status flipped to 0 after a failed rename", observe_reports(t, "C08", "FailureMeansNonZero"), not accepted(t)))
    # 4. lock value lowered in the projected post-state
    t = copy.deepcopy(good)
    t[-1]["lock"] = 1
    results.append(("lock value lowered", observe_reports(t, "C02", "LockDominates"), not accepted(t)))
    # 5. a log line of the run dropped (output protocol of RunTrace)
    t = copy.deepcopy(good)
    li = next(i for i, e in enumerate(t) if e.get("ev") == "log" and e["code"] == 21)
    del t[li]
    results.append(("log line 'Num. inserted' dropped", True, not accepted(t)))
    v.cov["binding_selftest"] = [{"corruption": c, "observe_reports_property": a, "runtrace_rejects": b} for c, a, b in results]
    bad = [c for c, a, b in results if not (a and (b or not rt_live))]
    if bad:
        raise common.ToolError("binding self-test: corrupted traces were accepted: %s" % bad)
    log("[selftest] %d corrupted traces rejected by Observe and RunTrace" % len(results))


def c07(tier):
    v = Verdict("C07", tier)
    model_step(v, tiered("intended/C07.cfg", tier), need=("RenameTmp", "Drain", "FlushTmp", "Kill", "DropTmp"))
    expect_counterexample(v, "asfound/C07noflush.cfg", ("AtomicFiles",))
    binary = common.build_breadlog()
    binding_selftest(v, binary)
    batch = rl.Batch()
    kinds = ["kill_before", "kill_after", "EIO", "ENOSPC", "EACCES", "EXDEV"]
    scens = []
    for structured in (False, True):
        scens += rl.small_trees(structured=structured)
    scens.append(rl.sized_tree("sized-10k", 10000))
    # the statement at the top of the file and a long tail after it (one tail write larger than everything before)
    scens.append(rl.Scenario("long-tail", {"f1.rs": [S(11)], "f2.rs": [S(21, ref=2)]}, pad=120000, pad_mode="tail"))
    if tier == "thorough":
        kinds.append("short")
        scens.append(rl.sized_tree("sized-200k", 200000, nfiles=2))
        scens.append(rl.sized_tree("sized-1m", 1100000, nfiles=1, structured=True))
        scens += rl.small_trees(structured=False, lock=30)
        scens += rl.small_trees(structured=True, lock=30)
        scens.append(rl.Scenario("five-files", {"f%d.rs" % i: [S(10 * i + 1), S(10 * i + 2, ref=i)] for i in range(1, 6)}, structured=True))
        scens.append(rl.Scenario("crlf-unicode", {"f1.rs": [S(11), S(12)], "f2.rs": [S(21)]}, crlf=True, unicode_prelude=True, pad=20000))
    for sc in scens:
        sc.kw["extra_files"] = EXTRA
        small = sum(len(x) for x in sc.tree.values()) <= 12 and not sc.kw.get("pad")
        # a stop request is one more thing that can happen at any operation: while a file with many statements is being
        # written, too (the file must still end up complete or untouched)
        kk = kinds + (["TERM"] if sc.name.startswith("sized-10k") else [])
        K, n = rl.sweep(binary, sc, "edit", kk, batch, v, follow=("recover" if small else None))
        log("[sweep] %s: %d operations, %d runs" % (sc.name, K, n))
    # the same sweep with TMPDIR on another file system (no file can be moved into place; nothing may appear in the project)
    for structured in (False, True):
        sc = rl.small_trees(structured=structured)[0]
        sc.kw["tmp_on_other_fs"] = True
        sc.kw["extra_files"] = EXTRA
        sc.name += "-xdev"
        K, n = rl.sweep(binary, sc, "edit", ["kill_before", "kill_after", "EIO"], batch, v, follow="recover")
        log("[sweep] %s: %d operations, %d runs" % (sc.name, K, n))
    batch.judge(v, {"C07"})
    v.cov["rule"] = ("every counted filesystem operation k of a fault-free edit run x fault kind "
                     "(kill before/after, EIO, ENOSPC, EACCES, EXDEV on rename); on the small trees each is followed by "
                     "'the developer removes code, ordinary edit run, check' (recovery); distinct = (scenario, k, kind)")
    v.cov["exhaustive"] = True
    v.assumptions += ["process death loses user-space buffers only (completed write(2) calls persist)",
                      "operations are counted at libc entry points seen by LD_PRELOAD"]
    return v.finish()


def c08(tier):
    v = Verdict("C08", tier)
    model_step(v, tiered("intended/C08.cfg", tier), need=("CreateTmp", "RenameTmp", "Drain", "FlushTmp", "Exit"))
    for kind in ("nocreate", "norename"):
        model_step(v, tiered("intended/C08env_%s.cfg" % kind, tier), need=("CreateTmp", "Exit"))
    expect_counterexample(v, "asfound/C08ignored.cfg", ("FailureMeansNonZero", "ExitZeroDone"))
    # observation O11 (outside C08's quantifier: a failure while the source directory is read): the model shows what follows
    expect_counterexample(v, "asfound/O11walkfault.cfg", ("ExitZeroDone",))
    binary = common.build_breadlog()
    batch = rl.Batch()
    errs = ["EIO", "ENOSPC", "EACCES", "EXDEV"] if tier == "thorough" else ["EIO", "EXDEV", "ENOSPC"]
    scens = []
    for structured in (False, True):
        scens += rl.small_trees(structured=structured)
    scens.append(rl.sized_tree("sized-40k", 40000))
    scens.append(rl.Scenario("long-tail", {"f1.rs": [S(11)], "f2.rs": [S(21, ref=2)]}, pad=120000, pad_mode="tail"))
    if tier == "thorough":
        scens.append(rl.sized_tree("sized-300k", 300000, structured=True))
    tmpops = ("tmp.create", "tmp.write", "tmp.rename", "tmp.fsync", "tmp.unlink",
              # the lock file may be written through a scratch file of its own
              "lock.create", "lock.write", "lock.rename", "lock.fsync")
    if tier == "thorough":
        scens.append(rl.Scenario("five-files", {"f%d.rs" % i: [S(10 * i + 1), S(10 * i + 2, ref=i)] for i in range(1, 6)}, structured=False))
        scens += rl.small_trees(structured=False, lock=30)
    for sc in scens:
        K, n = rl.sweep(binary, sc, "edit", errs + ["short"], batch, v, follow="check", only_ops=tmpops)
        log("[sweep] %s: %d operations, %d runs" % (sc.name, K, n))
        multi = []
        for op in ("open,path=.tmp", "write,path=.tmp", "rename"):
            for nth in (0, 2):
                for e in (5, 28, 18) if op == "rename" else (5, 28):
                    multi.append([("edit", "op=%s,nth=%d:errno=%d" % (op, nth, e)), ("check", "")])
        # persistent failures with errnos a file system uses for "not supported here" (what an fsync-style call may meet)
        for e in (22, 38, 95):
            multi.append([("edit", "op=write,path=.tmp,nth=0:errno=%d" % e), ("check", "")])
            multi.append([("edit", "op=fsync,nth=0:errno=%d" % e), ("check", "")])
        # a run in which every file fails, then (more than a second later) an ordinary run: it must do the work
        multi.append([("edit", "op=rename,nth=0:errno=5"), ("sleep", 1.3), ("edit", ""), ("check", "")])
        multi.append([("edit", "op=open,path=.tmp,nth=0:errno=28"), ("sleep", 1.3), ("edit", ""), ("check", "")])
        # ... and the same with the pause before the failing run (the sources are older than anything the runs write)
        multi.append([("sleep", 1.3), ("edit", "op=rename,nth=0:errno=5"), ("edit", ""), ("check", "")])
        multi.append([("sleep", 1.3), ("edit", "op=open,path=.tmp,nth=0:errno=28"), ("sleep", 1.3), ("edit", ""), ("check", "")])
        multi.append([("sleep", 1.3), ("edit", "op=rename,nth=1:errno=13"), ("sleep", 1.3), ("edit", ""), ("check", "")])
        multi.append([("edit", "op=rename,nth=1:errno=18;op=write,path=.tmp,nth=3:errno=5"), ("check", "")])
        multi.append([("edit", "op=open,path=.tmp,nth=1:errno=13;op=rename,nth=1:errno=5"), ("check", "")])
        rl.planned_runs(binary, sc, multi, batch, v)
    for structured in (False, True):
        for sc in rl.small_trees(structured=structured):
            sc.kw["tmp_on_other_fs"] = True
            sc.name += "-xdev"
            rl.planned_runs(binary, sc, [[("edit", ""), ("check", "")]], batch, v, sigbase={"xdev": True})
    # more files than a process may hold open at once
    many = {"m%04d.rs" % i: [S(10000 + i)] + ([S(20000 + i, ref=i)] if i % 3 == 0 and i else []) for i in range(1100)}
    rl.planned_runs(binary, rl.Scenario("many-files", many, opaque=False), [[("check", ""), ("edit", ""), ("check", "")]], batch, v)
    env_step(v, binary, batch, tier, follow="check")
    batch.judge(v, {"C08"})
    v.cov["rule"] = ("errno / short-write injection at every temp-file operation of an edit run, multi-fault plans on "
                     "every / every-second create, write and rename, and a real cross-device TMPDIR; each followed by "
                     "a --check; distinct = (scenario, plan)")
    v.assumptions += ["injected failures are returned at the libc boundary before the operation is performed"]
    return v.finish()


def c16(tier):
    v = Verdict("C16", tier)
    model_step(v, "intended/C16.cfg", need=("ReadLock", "LockWrite", "Pass1File", "DiscoverStart", "DiscoverEntry", "DiscoverDone"))
    binary = common.build_breadlog()
    batch = rl.Batch()
    trees = [{"f1.rs": [S(11), S(12, ref=30)], "f2.rs": [S(21)]},
             {"f1.rs": [S(11, ref=30)], "f2.rs": [S(21, ref=31)]}]
    extra = dict(EXTRA)
    extra["src/other.txt"] = 'fn f() { info!("s77 value {}", x); }\n'
    extra["src/upper.RS"] = 'fn f() { info!("s78 value {}", x); }\n'
    n = 0
    for use_cache in (None, True, False):
        for skey in ("omitted", "explicit"):
            for structured in ((False,) if skey == "omitted" else (False, True)):
                # explicit lists: [rs], and lists in which rs is neither alone nor in sorted position (the other extensions
                # match no file of the tree, so the in-scope set is the same)
                for ext in (None, ["rs"], ["rs", "inc"], ["zz", "rs", "aa"]):
                    for lock in (None, 50, 3, "corrupt", "empty"):
                        for tree in trees:
                            sc = rl.Scenario("cfg-%d" % n, tree, lock=lock, structured=structured, use_cache=use_cache,
                                             structured_key=skey, extensions=ext,
                                             extra_files=extra)
                            n += 1
                            sig = {"use_cache": str(use_cache), "structured_key": skey, "extensions": str(ext), "lock": str(lock)}
                            # two-run behaviour: edit; developer deletes the highest statement and adds one; edit; check
                            res = rl.planned_runs(binary, sc, [[("check", "")], [("edit", "")]], batch, v, sigbase=sig)
                            rl.planned_runs(binary, sc, [[("edit", "")]], batch, v, sigbase=sig, follow="c02")
                            # a valid configuration with in-scope files: a fault-free edit run succeeds (none of these
                            # trees is near the end of the ID range)
                            if res[1]["exits"][0] != 0:
                                v.violation(dict(sig, check="ValidConfigurationRuns"),
                                            "C16: a fault-free edit run with a valid configuration (%s) exits %s" % (sig, res[1]["exits"][0]),
                                            {"scenario": sc.describe(), "exits": res[1]["exits"]})
    for cc in ("missing", "invalid", "nosourcedir", "sourcedirfile", "noinscope", "emptyext", "nomacros"):
        for mode in ("check", "edit"):
            for lock in (None, 9):
                sc = rl.Scenario("cfgerr-%s" % cc, {"f1.rs": [S(11)], "f2.rs": [S(21, ref=3)]}, lock=lock, config_class=cc,
                                 extra_files=extra)
                rl.planned_runs(binary, sc, [[(mode, "")]], batch, v, sigbase={"config_class": cc})
    # the lock is written by every inserting run, also one that fails on a later file
    for structured in (False, True):
        sc = rl.Scenario("partial-failure", {"f1.rs": [S(11)], "f2.rs": [S(21), S(22)], "f3.rs": [S(31)]}, lock=50, structured=structured)
        rl.sweep(binary, sc, "edit", ["EIO"], batch, v, only_ops=("tmp.create", "tmp.write", "tmp.rename"), follow="check")
    # a lock that exists but cannot be read is none of a run's business when use_cache is false
    for lockkind in ("dir", "loop"):
        for mode in ("check", "edit"):
            sc = rl.Scenario("cache-off-lock-" + lockkind, {"f1.rs": [S(11)], "f2.rs": [S(21, ref=3)]}, lock=lockkind, use_cache=False)
            res = rl.planned_runs(binary, sc, [[(mode, "")]], batch, v, sigbase={"lock_kind": lockkind, "use_cache": "False"})
            want = 0 if mode == "edit" else "nonzero"
            if res[0]["exits"][0] != want:
                v.violation({"check": "CacheOffIgnoresLock", "lock_kind": lockkind, "mode": mode},
                            "C16: use_cache false and a lock that cannot be read (%s): %s run exits %s" % (lockkind, mode, res[0]["exits"][0]),
                            {"scenario": sc.describe(), "exits": res[0]["exits"]})
    # the cache switch must also hold when a run is stopped or an operation fails
    for lock in (None, 500):
        sc = rl.Scenario("cache-off-stop", {"f1.rs": [S(11)], "f2.rs": [S(21), S(22)]}, use_cache=False, lock=lock)
        rl.sweep(binary, sc, "edit", ["TERM", "INT"], batch, v)
        rl.sweep(binary, sc, "edit", ["EIO"], batch, v, only_ops=("tmp.create", "tmp.write", "tmp.rename"))
    env_step(v, binary, batch, tier, follow="c02")
    locktext_step(v, binary, tier)
    batch.judge(v, {"C16"})
    v.cov["exhaustive"] = True
    v.cov["rule"] = ("all combinations of use_cache {omitted,true,false} x structured {omitted,false,true} x extensions {omitted,[rs],[rs,inc],[zz,rs,aa]} x "
                     "lock {absent, ahead, behind, corrupt, empty} x tree class x mode, each also as a two-run history; configuration error "
                     "classes in both modes; distinct = (configuration, steps)")
    return v.finish()


def c18(tier):
    v = Verdict("C18", tier)
    model_step(v, tiered("intended/C18.cfg", tier), need=("Signal", "DiscoverStart", "DiscoverEntry", "DiscoverDone", "ScanFile", "Pass1File", "Pass2Next", "LockWrite"))
    r = run_tlc("MCRun.tla", "intended/C18live.cfg", workers=min(8, common.NCPU), coverage=False)
    require_tlc_ok(r, "C18live")
    v.add_tlc(r, "intended/C18live.cfg (liveness: stop ~> exit)")
    expect_counterexample(v, "asfound/C18sigint.cfg", ("ExitsByItself", "InterruptedCheckNeverPasses", "StopMeansNonZeroOrDone"))
    expect_counterexample(v, "asfound/C18partial.cfg", ("InterruptedCheckNeverPasses", "StopMeansNonZeroOrDone"))
    binary = common.build_breadlog()
    batch = rl.Batch()
    scens = []
    for structured in ((False, True) if tier == "thorough" else (False,)):
        for lock in (None, 40):
            for sc in rl.small_trees(structured=structured, lock=lock):
                sc.name += "-lock%s" % lock
                scens.append(sc)
    scens.append(rl.Scenario("all-referenced", {"f1.rs": [S(11, ref=1)], "f2.rs": [S(21, ref=2)]}))
    scens.append(rl.Scenario("cache-off", {"f1.rs": [S(11)], "f2.rs": [S(21), S(22)]}, use_cache=False, lock=500))
    for miss in (1, 2, 3):          # whichever order the directory yields, the incomplete file is not always first
        scens.append(rl.Scenario("only-f%d-missing" % miss, {"f%d.rs" % i: [S(10 * i + 1, ref=(None if i == miss else i))] for i in (1, 2, 3)}, lock=9))
    if tier == "thorough":
        scens.append(rl.Scenario("five-files", {"f%d.rs" % i: [S(10 * i + 1), S(10 * i + 2, ref=i)] for i in range(1, 6)}, lock=50))
        scens.append(rl.sized_tree("sized-100k", 100000, lock=50))
        scens.append(rl.Scenario("cache-off", {"f1.rs": [S(11)], "f2.rs": [S(21), S(22)]}, use_cache=False))
    for sc in scens:
        for mode in ("check", "edit"):
            K, n = rl.sweep(binary, sc, mode, ["INT", "TERM"], batch, v)
        log("[sweep] %s: %d operations" % (sc.name, K))
    # the stopped run is a later run of a history: the sources carry IDs from earlier runs, the lock has become unusable
    # (unparsable after a merge), so the run has to scan - and is stopped while it does
    for structured in ((False, True) if tier == "thorough" else (False,)):
        sc = rl.Scenario("later-run-scans", {"f1.rs": [S(11), S(12)], "f2.rs": [S(21)], "f3.rs": [S(31), S(32)]}, lock=None,
                         structured=structured)
        K, n = rl.sweep(binary, sc, "edit", ["TERM", "INT"], batch, v, follow="check",
                        pre_steps=[("edit", ""), ("lock", "corrupt"), ("devfn", "delete_highest_and_add", 3)])
        log("[sweep] %s (later run, unusable lock): %d operations, %d runs" % (sc.name, K, n))
    # winding down takes time: after the stop request the lock file needs 2.6 s to open.  The run still finishes its
    # file, records the IDs and exits by itself
    sc = rl.Scenario("slow-wind-down", {"f1.rs": [S(11), S(12)], "f2.rs": [S(21)], "f3.rs": [S(31), S(32)]}, lock=None)
    K, n = rl.sweep(binary, sc, "edit", ["TERM+slow", "INT+slow"] if tier == "thorough" else ["TERM+slow"], batch, v, follow="check",
                    only_ops=None if tier == "thorough" else ("tmp.create", "tmp.write", "tmp.rename", "dir.readdir"))
    log("[sweep] %s: %d operations, %d runs" % (sc.name, K, n))
    batch.judge(v, {"C18"})
    v.cov["rule"] = ("SIGINT and SIGTERM raised inside the interposed call immediately before every counted operation k of "
                     "check and edit runs (signals before the handlers exist included); distinct = (scenario, mode, k, signal)")
    v.cov["exhaustive"] = True
    v.assumptions += ["a signal raised synchronously inside an intercepted libc call stands for a signal arriving "
                      "between the two surrounding operations"]
    return v.finish()


TABLE = {"C01": c01, "C02": c02, "C04": c04, "C05": c05, "C06": c06, "C07": c07, "C08": c08, "C16": c16, "C18": c18}
