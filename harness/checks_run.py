"""Run-level property checks (C01, C02, C04-C08, C16, C18)."""
import common
import runlevel as rl
from common import Verdict, run_tlc, require_tlc_ok, log


def model_step(v, cfg, need=(), module="MCRun.tla"):
    r = run_tlc(module, cfg, workers=min(12, common.NCPU))
    require_tlc_ok(r, cfg, need_actions=need)
    v.add_tlc(r, cfg)
    log("[tlc] %s: %d distinct states, %d generated, depth %d, %.1fs" % (cfg, r.distinct, r.generated, r.depth, r.wall))
    return r


def c07(tier):
    v = Verdict("C07", tier)
    model_step(v, "intended/C07.cfg", need=("RenameTmp", "Drain", "FlushTmp", "Kill", "DropTmp"))
    binary = common.build_breadlog()
    batch = rl.Batch()
    kinds = ["kill_before", "kill_after", "EIO", "ENOSPC", "EACCES", "EXDEV"]
    scens = []
    for structured in (False, True):
        scens += rl.small_trees(structured=structured)
    scens.append(rl.sized_tree("sized-10k", 10000))
    if tier == "thorough":
        scens.append(rl.sized_tree("sized-200k", 200000, nfiles=2))
        scens.append(rl.sized_tree("sized-1m", 1100000, nfiles=1, structured=True))
    extra = {"notes.txt": "not a source file\n", "src/readme.md": "out of scope\n"}
    for sc in scens:
        sc.kw["extra_files"] = extra
        K, n = rl.sweep(binary, sc, "edit", kinds, batch, v)
        log("[sweep] %s: %d operations, %d runs" % (sc.name, K, n))
    batch.judge(v, {"C07"})
    v.cov["rule"] = ("every counted filesystem operation k of a fault-free edit run x fault kind "
                     "(kill before/after, EIO, ENOSPC, EACCES, EXDEV on rename); distinct = (scenario, k, kind)")
    v.cov["exhaustive"] = True
    v.assumptions += ["process death loses user-space buffers only (completed write(2) calls persist)",
                      "operations are counted at libc entry points seen by LD_PRELOAD"]
    return v.finish()


TABLE = {"C07": c07}
