"""Run-level property checks (C01, C02, C04-C08, C16, C18)."""
import common
import runlevel as rl
from common import Verdict, run_tlc, require_tlc_ok, log


def model_step(v, cfg, need=(), module="MCRun.tla"):
    r = run_tlc(module, cfg, workers=min(12, common.NCPU))
    require_tlc_ok(r, cfg, need_actions=need)
    v.add_tlc(r, cfg)
    log("[tlc] %s: %d distinct states, %d generated, depth %d, %.1fs" % (cfg, r.distinct, r.generated, r.depth, r.wall))
    return r


def c07(tier):
    v = Verdict("C07", tier)
    model_step(v, "intended/C07.cfg", need=("RenameTmp", "Drain", "FlushTmp", "Kill", "DropTmp"))
    binary = common.build_breadlog()
    batch = rl.Batch()
    kinds = ["kill_before", "kill_after", "EIO", "ENOSPC", "EACCES", "EXDEV"]
    scens = []
    for structured in (False, True):
        scens += rl.small_trees(structured=structured)
    scens.append(rl.sized_tree("sized-10k", 10000))
    if tier == "thorough":
        scens.append(rl.sized_tree("sized-200k", 200000, nfiles=2))
        scens.append(rl.sized_tree("sized-1m", 1100000, nfiles=1, structured=True))
    extra = {"notes.txt": "not a source file\n", "src/readme.md": "out of scope\n"}
    for sc in scens:
        sc.kw["extra_files"] = extra
        K, n = rl.sweep(binary, sc, "edit", kinds, batch, v)
        log("[sweep] %s: %d operations, %d runs" % (sc.name, K, n))
    batch.judge(v, {"C07"})
    v.cov["rule"] = ("every counted filesystem operation k of a fault-free edit run x fault kind "
                     "(kill before/after, EIO, ENOSPC, EACCES, EXDEV on rename); distinct = (scenario, k, kind)")
    v.cov["exhaustive"] = True
    v.assumptions += ["process death loses user-space buffers only (completed write(2) calls persist)",
                      "operations are counted at libc entry points seen by LD_PRELOAD"]
    return v.finish()


def c08(tier):
    v = Verdict("C08", tier)
    model_step(v, "intended/C08.cfg", need=("CreateTmp", "RenameTmp", "Drain", "FlushTmp", "Exit"))
    binary = common.build_breadlog()
    batch = rl.Batch()
    follow = lambda h: h.run("check")
    errs = ["EIO", "ENOSPC", "EACCES", "EXDEV"] if tier == "thorough" else ["EIO", "EXDEV", "ENOSPC"]
    scens = []
    for structured in (False, True):
        scens += rl.small_trees(structured=structured)
    scens.append(rl.sized_tree("sized-40k", 40000))
    if tier == "thorough":
        scens.append(rl.sized_tree("sized-300k", 300000, structured=True))
    tmpops = ("tmp.create", "tmp.write", "tmp.rename", "tmp.fsync", "tmp.unlink")
    for sc in scens:
        K, n = rl.sweep(binary, sc, "edit", errs + ["short"], batch, v, follow=follow, only_ops=tmpops)
        log("[sweep] %s: %d operations, %d runs" % (sc.name, K, n))
        # multiple simultaneous failures on any subset of the files
        multi = []
        for op in ("open,path=.tmp", "write,path=.tmp", "rename"):
            for nth in (0, 2):
                for e in (5, 28, 18) if op == "rename" else (5, 28):
                    multi.append([("edit", "op=%s,nth=%d:errno=%d" % (op, nth, e)), ("check", "")])
        multi.append([("edit", "op=rename,nth=1:errno=18;op=write,path=.tmp,nth=3:errno=5"), ("check", "")])
        multi.append([("edit", "op=open,path=.tmp,nth=1:errno=13;op=rename,nth=1:errno=5"), ("check", "")])
        rl.planned_runs(binary, sc, multi, batch, v)
    # a temporary directory on a different filesystem from the sources: a genuine EXDEV
    for structured in (False, True):
        for sc in rl.small_trees(structured=structured):
            sc.kw["tmp_on_other_fs"] = True
            sc.name += "-xdev"
            rl.planned_runs(binary, sc, [[("edit", ""), ("check", "")]], batch, v, sigbase={"xdev": True})
    batch.judge(v, {"C08"})
    v.cov["rule"] = ("errno / short-write injection at every temp-file operation of an edit run, multi-fault plans on "
                     "every / every-second create, write and rename, and a real cross-device TMPDIR; each followed by "
                     "a --check; distinct = (scenario, plan)")
    v.assumptions += ["injected failures are returned at the libc boundary before the operation is performed"]
    return v.finish()


def c18(tier):
    v = Verdict("C18", tier)
    model_step(v, "intended/C18.cfg", need=("Signal", "Discover", "ScanFile", "Pass1File", "Pass2Next", "LockWrite"))
    r = run_tlc("MCRun.tla", "intended/C18live.cfg", workers=min(8, common.NCPU), coverage=False)
    require_tlc_ok(r, "C18live")
    v.add_tlc(r, "intended/C18live.cfg (liveness: stop ~> exit)")
    binary = common.build_breadlog()
    batch = rl.Batch()
    scens = []
    for structured in ((False, True) if tier == "thorough" else (False,)):
        for lock in (None, 2):
            for sc in rl.small_trees(structured=structured, lock=lock if lock is None else 40):
                sc.name += "-lock%s" % lock
                scens.append(sc)
    # a tree with nothing missing: interrupted runs may legitimately exit 0 there
    scens.append(rl.Scenario("all-referenced", {"f1.rs": [rl.S(11, ref=1)], "f2.rs": [rl.S(21, ref=2)]}))
    for sc in scens:
        for mode in ("check", "edit"):
            K, n = rl.sweep(binary, sc, mode, ["INT", "TERM"], batch, v)
        log("[sweep] %s: %d operations" % (sc.name, K))
    batch.judge(v, {"C18"})
    v.cov["rule"] = ("SIGINT and SIGTERM raised inside the interposed call immediately before every counted operation k of "
                     "check and edit runs (signals before the handlers exist included); distinct = (scenario, mode, k, signal)")
    v.cov["exhaustive"] = True
    v.assumptions += ["a signal raised synchronously inside an intercepted libc call stands for a signal arriving "
                      "between the two surrounding operations"]
    return v.finish()


def c04(tier):
    v = Verdict("C04", tier)
    model_step(v, "intended/C04.cfg", need=("ScanFile", "Signal", "Kill"))
    binary = common.build_breadlog()
    batch = rl.Batch()
    extra = {"notes.txt": "not a source file\n", "src/readme.md": "out of scope\n"}
    n = 0
    for structured in (False, True):
        for use_cache in (None, True, False):
            for lock in (None, 7, "corrupt", "empty"):
                for tree in ({"f1.rs": [rl.S(11), rl.S(12, ref=3)], "f2.rs": [rl.S(21)]},
                             {"f1.rs": [rl.S(11, ref=1)], "f2.rs": [rl.S(21, ref=2), rl.S(22, kind="unusable")]},
                             {"f1.rs": [rl.S(11)], "f2.rs": []}):
                    for bad in ((), ("f2.rs",)):
                        sc = rl.Scenario("cfg-%d" % n, tree, lock=lock, structured=structured, use_cache=use_cache,
                                         bad=bad, extra_files=extra)
                        n += 1
                        rl.planned_runs(binary, sc, [[("check", "")]], batch, v,
                                        sigbase={"use_cache": use_cache, "lock": str(lock)})
    # runs that fail: every operation failing / signalled / killed
    kinds = ["EIO", "EACCES", "TERM", "INT", "kill_after"] if tier == "thorough" else ["EIO", "TERM", "kill_after"]
    for structured in (False, True):
        for sc in rl.small_trees(structured=structured, lock=5):
            sc.kw["extra_files"] = extra
            K, k = rl.sweep(binary, sc, "check", kinds, batch, v)
    batch.judge(v, {"C04"})
    v.cov["rule"] = ("--check on every combination of (structured, use_cache omitted/true/false, lock absent/valid/corrupt/"
                     "empty, tree class, unreadable file), plus faults/signals/kill at every operation of a check run; "
                     "no mutating operation in the trace and an identical deep snapshot (names, types, modes, inodes, "
                     "mtimes, contents) of project, config and temp directories")
    return v.finish()


TABLE = {"C07": c07, "C08": c08, "C18": c18, "C04": c04}
