"""C17/C03/C05 on malformed input: render the token sequences enumerated by spec/Hostile.tla as files, run both
modes, watch for abnormal termination, and apply the universal monitors (pure insertion, report = insertion)."""
import multiprocessing
import os
import shutil

import bl
import monitors
import stmt as st
from common import ToolError

TOK = {
    "stmt": 'info!("s x");', "stmt_ref": 'warn!("[ref: 7] has");', "mb_stmt": 'étoile!("x");', "mb_ident": "let é = 1; ",
    "stmt_target": 'error!(target: "t", "tx");', "stmt_kv": 'info!(k = 1; "kv");', "stmt_open": 'info!("', "kv_open": "info!(k = ",
    "quote": '"', "escq": '\\"', "unterm": '"unterminated ', "slc": '// c info!("in comment") ', "blk_open": "/* ",
    "blk_close": "*/ ", "bang": "!(", "target": 'target: "t", ', "refeq": "ref = ", "semi": ";", "crlf": "\r\n",
    "u2028": "\u2028", "bom": "\ufeff", "nul": "\x00", "d10": "4294967295", "d11": "42949672960", "ident": "info", "nl": "\n",
    "rawstr": 'r#"raw "q" info!("x")"#; ', "charq": "'\"' ", "dirign": "// breadlog:ignore\n", "dirnokvp": "// BREADLOG:no-kvp\r\n",
    "tab": "\t", "emoji": "\U0001F980",
    # comment lines whose multi-byte characters start at every byte alignment (fixed-offset slicing of comment text)
    "cmt_mb2_0": "// " + "\u00e9" * 12 + "\n", "cmt_mb2_1": "// a" + "\u00e9" * 12 + "\n",
    "cmt_mb3_0": "// " + "\u4e16" * 9 + "\n", "cmt_mb3_1": "// a" + "\u4e16" * 9 + "\n", "cmt_mb3_2": "// ab" + "\u4e16" * 9 + "\n",
    "cmt_mb4_0": "/* " + "\U0001F980" * 7 + " */\n", "cmt_mb4_1": "/* a" + "\U0001F980" * 7 + " */\n",
    # deep unclosed nesting (backtracking grammar rules) and long lines with multi-byte text at every alignment
    "deep_paren": "f(" * 40, "deep_mixed": "({[" * 16, "deep_kv": "info!(k = g(" + "(" * 40,
    "stmt_long_mb2_0": 'warn!("' + "\u00e9" * 60 + '");', "stmt_long_mb2_1": 'warn!("a' + "\u00e9" * 60 + '");',
    "stmt_long_mb3_0": 'error!("' + "\u4e16" * 40 + '");', "stmt_long_mb3_1": 'error!("a' + "\u4e16" * 40 + '");',
    "stmt_long_mb3_2": 'error!("ab' + "\u4e16" * 40 + '");',
    # first-line material, and numbers just outside what a u32 holds in both reference styles
    "shebang": "#!/usr/bin/env run-cargo-script\n", "innerattr": "#![allow(unused)]\n", "hash": "#",
    "stmt_ref_over": 'warn!("[ref: 9999999999] over");', "stmt_ref_11": 'warn!("[ref: 42949672960] eleven");',
    "kvref_over": 'info!(ref = 9999999999; "kv over");', "open_ref": 'info!("[ref: ',
    "nested_cmt": "/* o /* i */ info!(\"in nested comment\"); */ ", "blk_open2": "/* /* ",
    "cmt_mb4_2": "/* ab" + "\U0001F980" * 7 + " */\n", "cmt_mb4_3": "/* abc" + "\U0001F980" * 7 + " */\n",
}


def render(case):
    text = "".join(TOK[t] for t in case["f"])
    if case["tail"] == "nl":
        text += "\n"
    return text.encode("utf-8")


class Outcome:
    def __init__(self):
        self.abnormal = []       # (mode, class, stderr tail, culprit file names)
        self.problems = []       # (file name, text)
        self.files = 0
        self.with_insertions = 0
        self.with_reports = 0


def _run(binary, P, check, timeout):
    return bl.run_breadlog(binary, P.config_path, check=check, tmpdir=P.tmp, roots=(), shim=False, timeout=timeout)


def _bisect(binary, structured, files, check, timeout, limit=2):
    """Find (up to `limit`) single files that make the run terminate abnormally."""
    culprits = []
    timeout = max(20, timeout // 6)      # a hang is a hang after 20 s on a handful of tiny files

    def bad(subset):
        P = bl.Project(structured=structured, tag="hb")
        try:
            P.write_sources(subset)
            P.set_lock(100000)
            r = _run(binary, P, check, timeout)
            return r.exit_class in ("panic", "timeout", "signal", "killed"), r
        finally:
            P.close()

    def rec(names):
        if len(culprits) >= limit or not names:
            return
        isbad, r = bad({n: files[n] for n in names})
        if not isbad:
            return
        if len(names) == 1:
            culprits.append((names[0], r.exit_class, r.stderr[-300:]))
            return
        mid = len(names) // 2
        rec(names[:mid])
        rec(names[mid:])
    rec(sorted(files))
    return culprits


SKIP_REST = multiprocessing.Value("i", 0)      # set by the parent when enough batches have terminated abnormally


def run_batch(job):
    """job = (binary, structured, {name: bytes}, with_bad_file)"""
    binary, structured, files, with_bad = job
    out = Outcome()
    if SKIP_REST.value:
        return out
    out.files = len(files)
    timeout = 120 + len(files) // 20
    P = bl.Project(structured=structured, tag="ho")
    try:
        allfiles = dict(files)
        if with_bad:
            allfiles["zz_not_utf8.rs"] = b'fn f() { info!("ok"); }\n\xff\xfe\xfd\n'
        P.write_sources(allfiles)
        P.set_lock(100000)
        r1 = _run(binary, P, True, timeout)
        if r1.exit_class in ("panic", "timeout", "signal", "killed"):
            c = _bisect(binary, structured, allfiles, True, timeout)
            out.abnormal.append(("check", r1.exit_class, r1.stderr[-300:], c))
            return out
        r2 = _run(binary, P, False, timeout)
        if r2.exit_class in ("panic", "timeout", "signal", "killed"):
            c = _bisect(binary, structured, allfiles, False, timeout)
            out.abnormal.append(("edit", r2.exit_class, r2.stderr[-300:], c))
            return out
        after = P.read_sources()
        reports = {}
        for (f, ln, col) in r1.missing_reports():
            reports.setdefault(os.path.basename(f), []).append((ln, col))
        totals = {os.path.basename(k): v for k, v in r1.per_file_totals().items()}
        if with_bad:
            if "zz_not_utf8.rs" in totals:
                out.problems.append(("zz_not_utf8.rs", "a file that is not valid UTF-8 was scanned instead of being skipped"))
            if not any(l["code"] == 4 for l in r1.logs):
                out.problems.append(("zz_not_utf8.rs", "a file that is not valid UTF-8 was not reported as unreadable"))
            if after.get("zz_not_utf8.rs") != allfiles["zz_not_utf8.rs"]:
                out.problems.append(("zz_not_utf8.rs", "a file that is not valid UTF-8 was modified"))
                okb, _ = monitors.pure_insertion(allfiles["zz_not_utf8.rs"], after.get("zz_not_utf8.rs") or b"")
                if not okb:
                    out.problems.append(("zz_not_utf8.rs", "edit of a file that is not valid UTF-8 is not a pure insertion of reference tokens"))
        for name, data in files.items():
            if name not in totals:
                out.problems.append((name, "file was not processed by --check (no per-file total) although another file was unreadable"
                                     if with_bad else "file was not processed by --check (no per-file total)"))
            a = after.get(name)
            ok, toks = monitors.pure_insertion(data, a) if a is not None else (False, [])
            if not ok:
                out.problems.append((name, "edit is not a pure insertion of reference tokens"))
                continue
            ins = sorted(monitors.line_col(None, ob, data=data) for (ob, oa, tok, ident) in toks)
            rep = sorted(reports.get(name, []))
            if ins:
                out.with_insertions += 1
            if rep:
                out.with_reports += 1
            if ins != rep:
                out.problems.append((name, "check reported %s but edit inserted at %s" % (rep[:6], ins[:6])))
        return out
    finally:
        P.close()
