"""Statement-level binding: render the feature records enumerated by TLC (spec/LogStmt.tla) as Rust text with
recorded offsets, run the real binary on packed files, and compare what it did to each statement with the
outcome the specification predicts."""
import os
import re

import bl
import monitors
from common import ToolError

MACROS = ("info", "warn", "error")

TARGET_TEXT = {"none": None, "plain": 'target: "tgt"', "comma": 'target: "a,b;c"', "escquote": 'target: "x\\"y"',
               "parens": 'target: "f(x)"',
               # the log crate takes any expression as target
               "const": "target: TGT", "macrocall": "target: module_path!()", "concat": 'target: concat!("store", "::disk")',
               "fmtexpr": 'target: &format!("{}{}", "x, ", "y; z")'}

KV_TEXT = {
    "int": "{k} = 1", "id": "{k} = x", "str": '{k} = "s"', "strsemi": '{k} = "a;b,c"', "short": "x",
    "strkey": '"key {k}" = 1', "strkeydbg": '"key {k}":? = x',     # the log crate also takes string literals as keys
    # keys that look like other parts of the syntax: a key named target, keys that begin with `ref`
    "keytarget": "target = x", "keytargetdbg": "target:? = x", "refprefix": "referrer = x", "refprefixnum": "ref_count = 3",
    "refprefixdbg": "refs:? = x",
    # values that contain a string literal after something else (a byte string, a comparison)
    "bytestr": '{k} = b"x"', "cmpstr": '{k} = z == "root"', "charquote": "{k} = z.find('\"').is_some()",
    "rawstrval": '{k} = r#"a"b"#',
    # values with separators inside brackets: call arguments, a closure body, a vec! literal
    "callcomma": "{k} = std::cmp::max(x, y)", "closureval": "{k} = Some(x).map(|v| {{ let w = v; w + 1 }}).unwrap_or(0)",
    "vecval": "{k} = vec![x, y].len()",
    # a bracketed group whose string argument contains a closing bracket, separators and quotes
    "callstrparen": '{k} = z.contains(r#") stop; "x", then"#)',
    "dbg": "{k}:? = x", "debug": "{k}:debug = x", "disp": "{k}:% = x", "display": "{k}:display = x",
    "shortdbg": "x:?", "err": "{k}:err = e", "sval": "{k}:sval = x", "serde": "{k}:serde = x",
    "ref=7": "ref = 7", "ref=0": "ref = 0", "ref=max": "ref = 4294967295", "ref=07": "ref = 07", "ref=x": "ref = x",
    "ref:?=x": "ref:? = x", "ref=over": "ref = 4294967296", "ref=str": 'ref = "7"', "ref=neg": "ref = -7",
    "ref=hex": "ref = 0x7", "ref=suffixed": "ref = 7u32", "ref=strkey": '"ref" = 7', "ref=strkeycmt": '"ref" /* id */ = 7', "strref": '{k} = "[ref: 5] v"',
}
# shapes that do not compile against the log crate as available offline (feature kv only) or are not valid Rust
KV_NOCOMPILE = {"err", "sval", "serde", "ref=over", "ref=07", "ref=neg", "bytestr"}      # b"x": [u8; 1] is not a log value

MSG_TEXT = {
    "plain": "s{u} hello", "leadspace": "  s{u} padded", "endbackslash": "s{u} drive C:\\\\", "onlybackslash": "\\\\", "slashes": "// s{u} not a comment",
    "blockcm": "/* s{u} */ tail", "placeholders": "s{u} a={{}} b={{:?}}", "escquote": 's{u} say \\"hi\\" there',
    "unicode": "s{u} h\u00e9llo \u4e16\u754c \U0001F980", "unicodefirst": "\u00e9 s{u}", "reflater": "s{u} see [ref: 5] later",
    "empty": "", "validref": "[ref: 5] s{u}", "validref0": "[ref: 0] s{u}", "validrefmax": "[ref: 4294967295] s{u}",
    "bracketnoref": "[s{u}] x", "openquote": 's{u} \\" unbalanced',
}

GAP = {"tight": "", "space": " ", "newline": "\n        ", "crlf": "\r\n        ", "blockcomment": " /* c, d; e */ ",
       "linecomment": " // c, d; e\n        ", "tabs": "\t",
       # the other characters Rust treats as white space: form feed / vertical tab; NEL, LRM, line and paragraph separator
       "formfeed": " \x0c\x0b ", "unicodews": " \u0085\u200e\u2028\u2029 "}

CONTEXT = {
    "linestart": ("", ";"), "indent": ("    ", ";"), "brace": ("    { ", "; }"), "arrow": ("    match x { _ => ", ", }"),
    "return": ("    return ", ";"), "letunderscore": ("    let _ = ", ";"), "afterstring": ('    let _s = "str"; ', ";"),
    "aftermultibyte": ("    /* \u00e9\u4e16 */ ", ";"), "break": ("    loop { break ", "; }"),
    "tabindent": ("\t\t", ";"),
    # other literals earlier on the same line whose text contains quotes: raw strings (no escapes), a raw string ending in a
    # backslash, a byte character, a lifetime
    "afterrawstring": ('    let _r = r#"say "hi" there"#; ', ";"), "afterrawbackslash": ('    let _w = r"C:\\dir\\"; ', ";"),
    "afterbytechar": ("    let _b = b'\"'; ", ";"), "afterlifetime": ("    let _l: &'static str = \"s\"; ", ";"),
    # character literals written with multi-character escapes next to a quote character
    "afterhexchar": ("    let _q = ['\\x41','\"']; ", ";"), "afterunicodechar": ("    let _v = ('\\u{22}', '\"', '\\u{1F980}'); ", ";"),
    # a string literal containing comment openers earlier on the same line
    "afterurl": ('    let _u = "http://example.org/*x"; ', ";"),
    # an already referenced statement (in both styles) with multi-byte text earlier on the same line
    "afterstmt": ('    warn!(ref = 5; "[ref: 5] pr\u00e9 \u4e16"); ', ";"),
}


def gap_units(gap):
    """Split a gap (whitespace and comments) into units; insertion is sensible at unit boundaries only."""
    units, i = [], 0
    while i < len(gap):
        if gap.startswith("/*", i):
            j = gap.index("*/", i) + 2
        elif gap.startswith("//", i):
            j = gap.index("\n", i) + 1
        elif gap.startswith("\r\n", i):
            j = i + 2
        else:
            j = i + 1
        units.append(gap[i:j])
        i = j
    return units


class Rendered:
    __slots__ = ("case", "uid", "text", "start", "end", "line0", "msg_off", "kv_allowed", "decoy", "stmt_off")


def render_case(case, uid, macroset=None):
    """Returns (text, info) for one feature record; offsets in info are relative to the start of the text (in
    characters of the str; converted to bytes by the packer)."""
    s = case["s"]
    head = s["head"]
    macro = MACROS[uid % 3]
    g = GAP[s["layout"]]
    pre, suf = CONTEXT[s["context"]]
    lines_before = ""
    if s["dir"] == "ignore":
        lines_before = "    // breadlog:ignore\n"
    elif s["dir"] == "nokvp":
        lines_before = "    // breadlog:no-kvp\n"
    msg = case["msgtext"] + (" s%d" % uid) if s["msg"] == "custom" else MSG_TEXT[s["msg"]].format(u=uid)
    args_after = ""
    if s["msg"] == "placeholders":
        args_after = ", x, y"
    if s["trailing"] == "one":
        msg += " {}"
        args_after += ", x"
    elif s["trailing"] == "two":
        msg += " {} {:?}"
        args_after += ", x, y"
    elif s["trailing"] == "named":
        # named format arguments: `name = value` after the message looks like a key-value
        msg += " {a} {b}"
        args_after += ", a = x, b = y + 1"
    elif s["trailing"] == "reflikearg":
        msg += " {}"
        args_after += ', "[ref: 5] arg"'
    mods = (macroset or {}).get(macro, "log")
    if isinstance(mods, str):
        mods = [mods]
    mod = mods[uid % len(mods)]
    allmods = set()
    for mv in (macroset or {"x": "other"}).values():
        allmods.update([mv] if isinstance(mv, str) else mv)
    others = sorted(allmods - set(mods)) or ["other"]
    name = {"bare": macro, "qualified": mod + "::" + macro, "crossmod": others[uid % len(others)] + "::" + macro, "unconfigured": "debug", "prefix": macro + "_extra",
            "suffix": "my_" + macro, "othermod": "other::" + macro, "modplus1": "x" + mod + "::" + macro, "modminus1": mod[1:] + "::" + macro,
            # identifier characters outside ASCII directly in front of a configured name / in the module path
            "unicodeprefix": "\u65e5\u5fd7" + macro, "unicodemod": "\u0436\u0443\u0440\u043d\u0430\u043b::" + macro, "submod": mod + "::sub::" + macro,
            "shortmod": "l::" + macro, "noliteral": macro, "noargs": macro, "linecomment": macro,
            "blockcomment": macro, "doccomment": macro, "instring": macro, "instringopen": macro, "rawstring": macro, "starcomment": macro, "nolit_outer": macro,
            "afterescchar": macro, "pathtail_ws": "other :: " + mod + "::" + macro, "pathtail_nl": "other::\n        " + mod + "::" + macro,
            "pathtail_bare": "other ::" + macro, "metavar": "$" + macro,
            "nestedcomment": macro, "nestedcomment3": macro, "bannercomment": macro, "upper": macro.upper(),
            "crateprefixed": "crate::" + mod + "::" + macro}.get(head)
    if name is None:
        raise ToolError("unknown head " + head)
    # argument list with recorded offsets
    out = []
    pos = {"msg": None, "kv_gap": None}

    def cur():
        return sum(len(x) for x in out)
    # the inter-token layout also applies between the `!` and the opening parenthesis (every second statement)
    commentish = head in ("linecomment", "blockcomment", "doccomment", "instring", "instringopen", "rawstring", "starcomment", "bannercomment",
                          "nestedcomment", "nestedcomment3", "nolit_outer", "afterescchar")
    hg = g if (uid % 4 == 0 and not commentish) else ""          # between `!` and `(`
    hb = g if (uid % 4 == 2 and not commentish) else ""          # between the name and `!`
    out.append(name + hb + "!" + hg + "(")
    gap_start = cur()
    if head == "noargs":
        out.append(")")
    elif head == "noliteral":
        out.append(g + "x" + ")")
    else:
        tgt = TARGET_TEXT[s["target"]]
        if tgt is not None:
            out.append(g + tgt + g + ",")
            gap_start = cur()
        out.append(g)
        pos["kv_gap"] = (gap_start, g)
        kvs = s["kvs"]
        for i, shape in enumerate(kvs):
            out.append(KV_TEXT[shape].format(k="k%d" % (i + 1)))
            out.append(g + ("," if i + 1 < len(kvs) else ";") + g)
        out.append('"')
        pos["msg"] = cur()
        out.append(msg + '"' + args_after + g + ")")
    call = "".join(out)
    if head == "linecomment":
        body = "    // " + call + ";"
        stmt_off = None
    elif head == "doccomment":
        body = "    /// " + call + ";"
        stmt_off = None
    elif head == "blockcomment":
        body = "    /* " + call + "; */"
        stmt_off = None
    elif head == "nestedcomment":
        # block comments nest: the statement is still inside the outer comment
        body = "    /* outer /* inner */ " + call + "; */"
        stmt_off = None
    elif head == "nestedcomment3":
        body = "    /* a /* b /* c */ b again */ " + call + "; /* d */ */"
        stmt_off = None
    elif head == "starcomment":
        body = "    /** " + call + "; **/"
        stmt_off = None
    elif head == "bannercomment":
        body = "    /********\n     * " + call.replace("\n", " ").replace("\r", " ") + ";\n     ********/"
        stmt_off = None
    elif head == "instring":
        inner = call.replace("\\", "\\\\").replace('"', '\\"').replace("\n", " ").replace("\r", " ")
        body = '    let _s%d = "call %s here";' % (uid, inner)
        stmt_off = None
    elif head == "afterescchar":
        # a quote character written as an escape, then a comment that itself contains a quote and macro-like text
        # (ONE quote: a reader that takes '\"' for the start of a string ends that string at the quote in the comment)
        body = "    let _c%d = '\\\"'; // the \" character, formerly " % uid + call + ";"
        stmt_off = None
    elif head == "nolit_outer":
        # a configured name without a literal message, as an argument of another macro whose own arguments go on with `; "text"`
        body = '    wrap!(%s!(n = 1); "outer literal %d", 3); also!(%s!(n = x), k; "second outer literal");' % (name, uid, name)
        stmt_off = None
    elif head == "instringopen":
        # string literals on one line: one with an odd number of escaped quotes, one that ends with `name!(`, and a
        # further one (what a skipped-string rule that forgets about escapes would mis-pair)
        body = '    let _a%d = "3.5\\" floppy"; let _b%d = "%s::%s!("; let _c%d = ", tail %d)";' % (uid, uid, mod, macro, uid, uid)
        stmt_off = None
    elif head == "rawstring":
        inner = call.replace("\n", " ").replace("\r", " ")
        body = '    let _r%d = r##"raw %s "# here"##;' % (uid, inner)
        stmt_off = None
    else:
        body = pre + call + suf
        stmt_off = len(lines_before) + len(pre)
    text = lines_before + body + "\n"
    r = Rendered()
    r.case, r.uid, r.text = case, uid, text
    r.stmt_off = stmt_off
    r.decoy = stmt_off is None
    r.msg_off = (stmt_off + pos["msg"]) if (stmt_off is not None and pos["msg"] is not None) else None
    r.kv_allowed = None
    if stmt_off is not None and pos["kv_gap"] is not None:
        gs, gtxt = pos["kv_gap"]
        offs, o = [stmt_off + gs], stmt_off + gs
        for u in gap_units(gtxt):
            o += len(u)
            offs.append(o)
        r.kv_allowed = offs
    return r


_LONE_LF = re.compile(r"(?<!\r)\n")


def _to_crlf(text):
    return _LONE_LF.sub("\r\n", text)


def _crlfify(r):
    """convert a rendered item to CRLF line endings, moving its recorded offsets along"""
    if getattr(r, "line0", None) is True:
        return
    t = r.text

    def shift(off):
        return None if off is None else off + len(_LONE_LF.findall(t[:off]))
    r.msg_off = shift(r.msg_off)
    r.stmt_off = shift(r.stmt_off)
    if r.kv_allowed is not None:
        r.kv_allowed = [shift(o) for o in r.kv_allowed]
    r.text = _to_crlf(t)
    r.line0 = True


class Pack:
    """A generated source file holding many rendered statements."""

    def __init__(self, name, header=True, bom=False, crlf=False):
        self.name = name
        self.bom = bom
        self.crlf = crlf          # the whole file has CRLF line endings
        self.parts = ["// generated by the verification harness: %s\nuse log::{info, warn, error};\n\npub fn f() {\n    let x = 1; let y = 2; let z = \"root\";\n" % name] if header else [""]
        if bom:
            self.parts[0] = "\ufeff" + self.parts[0]
        if crlf:
            self.parts[0] = _to_crlf(self.parts[0])
        self.items = []
        self.nchars = len(self.parts[0])

    def filler(self, text):
        if self.crlf:
            text = _to_crlf(text)
        self.parts.append(text)
        self.nchars += len(text)

    def add_inline(self, r):
        """add an item without the separator lines (the caller controls the surrounding lines)"""
        if self.crlf:
            _crlfify(r)
        r.start = self.nchars
        self.parts.append(r.text)
        self.nchars += len(r.text)
        r.end = self.nchars
        self.items.append(r)

    def add(self, r):
        if self.crlf:
            _crlfify(r)
        r.start = self.nchars
        self.parts.append(r.text)
        self.nchars += len(r.text)
        r.end = self.nchars
        sep = "    let _sep = 0;\n\n" if not self.crlf else "    let _sep = 0;\r\n\r\n"
        self.parts.append(sep)
        self.nchars += len(sep)
        self.items.append(r)

    def finish(self, tail=None):
        if tail is not None:
            # the file ends with this item and has no trailing newline
            if self.crlf:
                _crlfify(tail)
            tail.text = tail.text.rstrip("\r\n")
            tail.start = self.nchars
            self.parts.append(tail.text)
            self.nchars += len(tail.text)
            tail.end = self.nchars + 1
            self.items.append(tail)
        else:
            self.parts.append("}\r\n" if self.crlf else "}\n")
        self.text = "".join(self.parts)
        self.data = self.text.encode("utf-8")
        # char offset -> byte offset
        if len(self.data) == len(self.text):
            self.c2b = None
        else:
            self.c2b = []
            b = 0
            for ch in self.text:
                self.c2b.append(b)
                b += len(ch.encode("utf-8"))
            self.c2b.append(b)
        return self

    def b(self, coff):
        return coff if self.c2b is None else self.c2b[coff]


def observe_pack(binary, packs, structured, macros=bl.DEFAULT_MACROS, lock=100000, timeout=300):
    """Run check, edit, check, edit on a project holding the packs. Returns per pack: dict with
    reports (missing/unusable as byte offsets resolved from line/col), insertions, second-pass facts."""
    P = bl.Project(structured=structured, macros=macros, tag="st")
    try:
        P.write_sources({pk.name: pk.data for pk in packs})
        P.set_lock(lock)
        paths = {os.path.join(P.src, pk.name): pk for pk in packs}
        def abnormal(r):
            return r.exit_class in ("panic", "timeout", "signal", "killed")
        r1 = bl.run_breadlog(binary, P.config_path, check=True, tmpdir=P.tmp, roots=(), shim=False, timeout=timeout)
        before = {p: pk.data for p, pk in paths.items()}
        # once a run has hung or died on these files the other three runs are given little time: the verdict is in
        t2 = 15 if abnormal(r1) else timeout
        r2 = bl.run_breadlog(binary, P.config_path, check=False, tmpdir=P.tmp, roots=(), shim=False, timeout=t2)
        after = P.read_sources()
        t3 = 15 if (abnormal(r1) or abnormal(r2)) else timeout
        r3 = bl.run_breadlog(binary, P.config_path, check=True, tmpdir=P.tmp, roots=(), shim=False, timeout=t3)
        r4 = bl.run_breadlog(binary, P.config_path, check=False, tmpdir=P.tmp, roots=(), shim=False, timeout=t3)
        after2 = P.read_sources()
        lock_after, lock_after2 = None, P.get_lock()
        res = {}
        for p, pk in paths.items():
            a = after.get(pk.name)
            ok, toks = monitors.pure_insertion(pk.data, a) if a is not None else (False, [])
            res[pk.name] = {
                "missing": [(ln, col) for (f, ln, col) in r1.missing_reports() if f == p],
                "unusable": [(ln, col) for (f, ln, col) in r1.unusable_reports() if f == p],
                "pure": ok, "tokens": toks, "after": a,
                "missing2": [(ln, col) for (f, ln, col) in r3.missing_reports() if f == p],
                "unusable2": [(ln, col) for (f, ln, col) in r3.unusable_reports() if f == p],
                "unchanged2": after2.get(pk.name) == a,
            }
        runs = {"check1": r1, "edit1": r2, "check2": r3, "edit2": r4}
        return res, runs
    finally:
        P.close()


def line_starts(data):
    starts = [0]
    i = data.find(b"\n")
    while i >= 0:
        starts.append(i + 1)
        i = data.find(b"\n", i + 1)
    return starts


def lc_to_byte(data, starts, line, col):
    """(1-based line, 1-based column in characters) -> byte offset"""
    if line < 1 or line > len(starts):
        return None
    ls = starts[line - 1]
    le = starts[line] if line < len(starts) else len(data)
    seg = data[ls:le].decode("utf-8", "replace")
    if col - 1 > len(seg):
        return None
    return ls + len(seg[:col - 1].encode("utf-8"))


def judge_pack(pk, obs, structured):
    """Compare per statement. Returns list of (rendered, problem description, observed) for mismatches and the
    list of per-statement observations."""
    import bisect
    data = pk.data
    starts = line_starts(data)
    spans = [(pk.b(r.start), pk.b(r.end)) for r in pk.items]
    begins = [s for s, e in spans]

    def owner(boff):
        i = bisect.bisect_right(begins, boff) - 1
        if i >= 0 and spans[i][0] <= boff < spans[i][1]:
            return i
        return None
    per = [{"missing": [], "unusable": [], "ins": [], "missing2": []} for _ in pk.items]
    stray = []
    for key in ("missing", "unusable"):
        for (ln, col) in obs[key]:
            b = lc_to_byte(data, starts, ln, col)
            i = owner(b) if b is not None else None
            if i is None:
                stray.append((key, ln, col))
            else:
                per[i][key].append(b)
    for (ob, oa, tok, ident) in obs["tokens"]:
        i = owner(ob)
        if i is None:
            stray.append(("insertion", ob, tok))
        else:
            per[i]["ins"].append((ob, tok, ident))
    # second check: positions refer to the edited text; map through cumulative shift
    problems = []
    if not obs["pure"]:
        problems.append((None, "edit is not a pure insertion of reference tokens", None))
    if stray:
        problems.append((None, "reports/insertions outside every generated statement: %s" % stray[:5], None))
    for i, r in enumerate(pk.items):
        exp = r.case["outcome"]
        o = per[i]
        mode_struct = structured and r.case["s"]["dir"] != "nokvp"
        if exp == "any":
            continue
        if exp in ("none", "ignored", "hasref"):
            if o["missing"] or o["unusable"] or o["ins"]:
                problems.append((r, "expected %s (untouched, unreported) but observed %s" % (exp, _fmt(o)), o))
        elif exp == "untouched":
            if o["missing"] or o["ins"]:
                problems.append((r, "expected untouched but observed %s" % _fmt(o), o))
        elif exp == "unusable":
            if o["missing"] or o["ins"] or len(o["unusable"]) != 1:
                problems.append((r, "expected unusable (reported as such, not edited) but observed %s" % _fmt(o), o))
        elif exp == "missing":
            if len(o["missing"]) != 1 or len(o["ins"]) != 1 or o["unusable"]:
                problems.append((r, "expected one missing report and one insertion but observed %s" % _fmt(o), o))
                continue
            ob, tok, ident = o["ins"][0]
            if o["missing"][0] != ob:
                problems.append((r, "reported location (byte %d) differs from insertion point (byte %d)" % (o["missing"][0], ob), o))
            if mode_struct:
                sep = r.case["sep"]
                want = ("ref = %d%s " % (ident, sep)).encode()
                allowed = [pk.b(r.start + a) for a in (r.kv_allowed or [])]
                if tok != want:
                    problems.append((r, "token %r, expected %r" % (tok, want), o))
                elif ob not in allowed:
                    problems.append((r, "key-value inserted at byte %d, allowed (after target, before key-values): %s" % (ob, allowed), o))
            else:
                want = ("[ref: %d] " % ident).encode()
                mo = pk.b(r.start + r.msg_off)
                if tok != want:
                    problems.append((r, "token %r, expected %r" % (tok, want), o))
                elif ob != mo:
                    problems.append((r, "message token inserted at byte %d, first character of the literal is at %d" % (ob, mo), o))
    if obs["missing2"]:
        problems.append((None, "after the edit a second --check still reports %d missing reference(s) at %s" % (
            len(obs["missing2"]), obs["missing2"][:5]), None))
    if len(obs.get("unusable2", [])) > len(obs["unusable"]):
        problems.append((None, "after the edit --check reports %d unusable reference(s), %d before: a reference written by the edit "
                               "is not read back as one" % (len(obs["unusable2"]), len(obs["unusable"])), None))
    if not obs["unchanged2"]:
        problems.append((None, "a second edit run changed the file again", None))
    return problems, per


def _fmt(o):
    return "missing-reports=%d unusable-reports=%d insertions=%s" % (len(o["missing"]), len(o["unusable"]),
                                                                    [(a, t.decode()) for a, t, _ in o["ins"]])


def simple_stmt(uid, outcome, effect, mode, prefix="    ", multiline=False, suffix="", pad=0, url=False):
    """A plain statement lacking a reference, as a Rendered item (used by the directive files)."""
    macro = MACROS[uid % 3]
    if multiline:
        body = '%s!(\n        "' % macro
        tail = 's%d multi {}",\n        x\n    );' % uid
    else:
        body = '%s!("' % macro
        tail = 's%d x%s%s");' % (uid, (" " + "p" * pad) if pad else "", " see http://example.org/x" if url else "")
    text = prefix + body + tail + suffix
    r = Rendered()
    r.case = {"s": {"head": "bare", "target": "none", "kvs": [], "msg": "plain", "dir": effect, "trailing": "none",
                    "layout": "tight", "context": "indent"}, "mode": mode, "outcome": outcome,
              "sep": ";" if (mode == "structured" and effect != "nokvp") else "msg"}
    r.uid, r.text, r.decoy = uid, text, False
    r.stmt_off = len(prefix)
    r.msg_off = len(prefix) + len(body)
    r.kv_allowed = [len(prefix) + len(macro) + 2]
    return r


DIR_LINES = {
    "blank": "", "blankrun": "\n".join(["    ", "", "\t"] * 40), "cmt": "    // just a comment", "ign": "    // breadlog:ignore", "ignblock": "    /* breadlog:ignore */",
    "ignupper": "    // BREADLOG:Ignore", "ignpadded": "  //    breadlog:ignore   ", "igntight": "//breadlog:ignore",
    "nokvp": "    // breadlog:no-kvp", "nokvpblock": "    /* breadlog:no-kvp */", "nokvpupper": "    // Breadlog:NO-KVP",
}


def render_directive_case(pk, case, uid0):
    """Append the lines of one Directives case to the pack; returns the next free uid."""
    uid = uid0
    mode = case["mode"]
    for i, kind in enumerate(case["lines"]):
        st = case["stmts"][i]
        eff = "none"
        if st["outcome"] == "ignored":
            eff = "ignore"
        elif st["place"] == "message_start" and mode == "structured":
            eff = "nokvp"
        if kind in DIR_LINES:
            pk.filler(DIR_LINES[kind] + "\n")
        elif kind == "code":
            pk.filler("    let _z%d = 0;\n" % uid)
        elif kind == "strdir":
            # ... also behind a literal that ends in an escaped backslash, or one with an escaped quote
            pk.filler(('    let _s%d = "the docs say /* breadlog:ignore */";\n', '    let _s%d = "use /* breadlog:no-kvp */ here";\n',
                       '    let _b%d = "C:\\\\"; let _t = "see /* breadlog:ignore */";\n',
                       '    let _q%d = "a \\" quote"; let _t = "see /* breadlog:no-kvp */";\n')[uid % 4] % uid)
        elif kind == "attr":
            pk.filler(("    #[cfg(debug_assertions)]\n", "    #[allow(unused)]\n")[uid % 2])
        elif kind == "cmtextra":
            pk.filler(("    // breadlog:ignore please\n", "    // see breadlog:no-kvp\n", "    // breadlog:ignore breadlog:no-kvp\n")[uid % 3])
        elif kind == "codetrail":
            # code followed by a trailing directive comment; the code may contain a quote character that is not a string
            # delimiter (a character literal, a raw string)
            code = ("let _z%d = 0;", "let _q%d = '\"';", "let _r%d = r#\"say \"hi\"#;")[uid % 3] % uid
            pk.filler("    %s // breadlog:%s\n" % (code, ("ignore", "no-kvp")[uid % 2]))
        elif kind in ("stmt", "stmtml", "stmttrail", "sameline", "stmt2", "stmturl"):
            uid += 1
            prefix = "    "
            if kind == "sameline":
                prefix = "    /* breadlog:%s */ " % ("ignore", "no-kvp")[uid % 2]
            elif uid % 4 == 0:
                prefix = "    /* \u00e9\u4e16 */ "
            # two statements on a line: the first one is long in some files, so that the second one starts hundreds of
            # bytes after the line above
            r = simple_stmt(uid, st["outcome"], eff, mode, prefix=prefix, multiline=(kind == "stmtml"),
                            pad=((uid * 37) % 330 if (kind == "stmt2" and uid % 2 == 0) else 0), url=(kind == "stmturl"))
            pk.add_inline(r)
            if kind == "stmt2":
                uid += 1
                r2 = simple_stmt(uid, st["outcome"], eff, mode, prefix=" ")
                pk.add_inline(r2)
            if kind == "stmttrail":
                pk.filler(" // breadlog:%s" % ("ignore", "no-kvp")[uid % 2])
            pk.filler("\n")
        else:
            raise ToolError("unknown line kind " + kind)
        uid += 1
    pk.filler("    let _sep%d = 0;\n" % uid)
    return uid + 1
