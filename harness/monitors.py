"""Byte-level monitors whose verdicts are fed into the trace specifications as event fields."""
import re

TOKEN_MSG = re.compile(rb"\[ref: (\d{1,10})\] ")
TOKEN_KV = re.compile(rb"ref = (\d{1,10})(?:; |, )")
TOKEN_ANY = re.compile(rb"\[ref: (\d{1,10})\] |ref = (\d{1,10})(?:; |, )")
MAXTOK = 20


def pure_insertion(before, after):
    """Is `after` equal to `before` with reference tokens inserted?  Returns (ok, tokens) where tokens is a
    list of (offset_in_before, offset_in_after, token_bytes, id).  Backtracks over the (rare) ambiguous
    placements so that a correct edit is never rejected."""
    if before == after:
        return True, []
    nb, na = len(before), len(after)
    # candidate token starts in `after`
    cands = {}
    for m in TOKEN_ANY.finditer(after):
        cands[m.start()] = m
    # tokens may overlap candidate starts found by finditer (non-overlapping scan); add a second scan
    # for starts inside previously matched tokens
    for m in re.finditer(rb"(?=(\[ref: \d{1,10}\] |ref = \d{1,10}(?:; |, )))", after):
        if m.start() not in cands:
            mm = TOKEN_ANY.match(after, m.start())
            if mm:
                cands[m.start()] = mm
    cand_pos = sorted(cands)
    import bisect

    def first_mismatch(i, j):
        # length of common prefix of before[i:], after[j:]
        n = min(nb - i, na - j)
        lo = 0
        # fast path using slices in growing blocks
        step = 64
        while lo < n:
            s = min(step, n - lo)
            if before[i + lo:i + lo + s] == after[j + lo:j + lo + s]:
                lo += s
                step = min(step * 2, 1 << 20)
            else:
                # narrow down
                for t in range(s):
                    if before[i + lo + t] != after[j + lo + t]:
                        return lo + t
        return n

    stack = [(0, 0, [])]
    budget = 200000
    while stack and budget > 0:
        budget -= 1
        i, j, toks = stack.pop()
        m = first_mismatch(i, j)
        if i + m == nb and j + m == na:
            return True, toks
        # a token must start in (j+m-MAXTOK, j+m]; try the closest start last pushed = first tried
        lo = bisect.bisect_left(cand_pos, max(j, j + m - MAXTOK))
        hi = bisect.bisect_right(cand_pos, j + m)
        options = []
        for c in cand_pos[lo:hi]:
            mt = cands[c]
            tok = mt.group(0)
            ident = mt.group(1) or mt.group(2)
            ni = i + (c - j)
            nj = c + len(tok)
            if ni > nb or nj > na:
                continue
            options.append((ni, nj, toks + [(ni, c, tok, int(ident))]))
        # push in increasing order of c so that the closest to the mismatch is popped first
        for o in options:
            stack.append(o)
    return False, []


def line_col(text, char_offset_bytes, data=None):
    """1-based (line, column) of a byte offset in UTF-8 bytes `data`: lines end at LF (so CR LF is one
    break and the CR belongs to the previous line), columns count characters."""
    b = data if data is not None else text
    upto = b[:char_offset_bytes]
    line = upto.count(b"\n") + 1
    last_nl = upto.rfind(b"\n")
    col = len(upto[last_nl + 1:].decode("utf-8", "replace")) + 1
    return line, col


def classify(before, after, expect_tokens):
    """'orig' | 'new' | 'other'. `expect_tokens` = number of references the complete update inserts
    (None: unknown -> any positive number of tokens makes it 'new')."""
    if after == before:
        return "orig"
    ok, toks = pure_insertion(before, after)
    if not ok:
        return "other"
    if expect_tokens is None or len(toks) == expect_tokens:
        return "new"
    return "other"
