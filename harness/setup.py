"""setup: compile the interposer, build the binary once, parse every specification module."""
import glob
import os
import subprocess
import sys

sys.path.insert(0, os.path.dirname(os.path.abspath(__file__)))
import common


def main():
    common.build_shim(force=True)
    common.build_breadlog("release")
    common.cleanup_private_binaries()
    bad = 0
    for tla in sorted(glob.glob(os.path.join(common.SPEC, "*.tla"))):
        p = subprocess.run(["tla-sany", os.path.basename(tla)], cwd=common.SPEC, stdout=subprocess.PIPE,
                           stderr=subprocess.STDOUT, text=True)
        if p.returncode != 0 or "*** Errors" in p.stdout or "Fatal errors" in p.stdout:
            print("SANY failed on", tla)
            print(p.stdout[-2000:])
            bad += 1
    print("setup done; %d spec modules failed to parse" % bad)
    return 1 if bad else 0


if __name__ == "__main__":
    sys.exit(main())
