"""Drive histories (developer edits and Breadlog runs, with faults) on a real project directory and
project what happened onto the event vocabulary of spec/Observe.tla."""
import json
import os
import re

import bl
import monitors
from common import ToolError, run_tlc, SPEC, new_scratch, rm_scratch

O_WRONLY, O_RDWR, O_CREAT, O_TRUNC, O_APPEND = 1, 2, 0o100, 0o1000, 0o2000
NOREF, LABSENT, LCORRUPT = -1, -2, -1
BIGMAX = 2000000000


class History:
    """One history on one scratch project. Trees are {name: [slot,...]} with names 'f1.rs', 'f2.rs', ...
    (file index = position in self.names)."""

    def __init__(self, binary, names, tree, lock=None, structured=False, use_cache=None, base=0, maxid=None,
                 pad=0, crlf=False, unicode_prelude=False, bad=(), extra_files=None, tmp_on_other_fs=False,
                 label=None, config_class="ok", structured_key="explicit", extensions=None, opaque=False, tmp_leftovers=False, pad_mode="spread", tmp_missing=False, env=None, head_style="plain", ci_env=False, stdout_to=None,
                 literal_prelude=False):
        self.binary = binary
        self.ci_env = ci_env            # environment variables by which CI systems name files a tool may append to
        self.stdout_to = stdout_to      # None | "full" | "closed-pipe": standard output cannot be written
        self.literal_prelude = literal_prelude
        self.head_style = head_style
        # the environment of the invocation (spec/Env.tla): where TMPDIR is, how the configuration file and the source
        # directory are spelled, which directory the command is started in
        self.env = dict(env or {})
        tmp_on_other_fs = tmp_on_other_fs or self.env.get("tmp") == "otherfs"
        tmp_missing = tmp_missing or self.env.get("tmp") == "missing"
        tmp_leftovers = tmp_leftovers or self.env.get("tmp") == "leftovers"
        self.names = list(names)
        self.structured = structured
        self.base = base
        self.maxid = maxid if maxid is not None else (BIGMAX if base == 0 else bl.U32MAX - base)
        self.pad, self.crlf, self.unicode_prelude = pad, crlf, unicode_prelude
        self.pad_mode = pad_mode
        self.bad = set(bad)
        self.proj = bl.Project(structured=(structured if structured_key == "explicit" else None), use_cache=use_cache,
                               tmp_on_other_fs=tmp_on_other_fs, extensions=extensions,
                               macros=(bl.TWO_MODULES if head_style.startswith("twomodules") else bl.DEFAULT_MACROS))
        self.config_class = config_class
        self.opaque = opaque      # large trees: the statement-level abstraction is not handed to TLC (quadratic operators)
        self.use_cache = use_cache
        self.events = []
        self.runs = []          # (index of start event, index of end event, Run, plan, mode)
        self.label = label or ""
        self.extra_files = extra_files or {}
        self.tree = {n: self._norm(tree.get(n, [])) for n in self.names}
        self.present = {n: (n in tree) for n in self.names}
        # names starting with "^" are created BEFORE the sources (a directory walk that is not sorted hands out files in an
        # order that depends on when they were created)
        for rel, data in self.extra_files.items():
            if rel.startswith("^"):
                p = os.path.join(self.proj.proj, rel[1:])
                os.makedirs(os.path.dirname(p), exist_ok=True)
                with open(p, "wb") as fh:
                    fh.write(data if isinstance(data, bytes) else data.encode())
        self._materialise_all()
        self.proj.set_lock(self._real_lock(lock))
        self.abs_lock = self._abs_lock(self.proj.get_lock())
        for rel, data in self.extra_files.items():
            if rel.startswith("^"):
                continue
            p = os.path.join(self.proj.proj, rel)
            os.makedirs(os.path.dirname(p), exist_ok=True)
            with open(p, "wb") as fh:
                fh.write(data if isinstance(data, bytes) else data.encode())
        if tmp_missing:
            # TMPDIR names a directory that does not exist (yet)
            self.proj.tmp = os.path.join(self.proj.tmp, "not", "created")
        if tmp_leftovers:
            # what a killed earlier run leaves behind: old and fresh scratch files, and an unrelated file
            import time as _t
            for i, age in enumerate((7200, 30)):
                pth = os.path.join(self.proj.tmp, "breadlog-00000000-0000-4000-8000-%012d.tmp" % i)
                with open(pth, "w") as fh:
                    fh.write("fn leftover() {}\n")
                os.utime(pth, (_t.time() - age, _t.time() - age))
            with open(os.path.join(self.proj.tmp, "unrelated.txt"), "w") as fh:
                fh.write("x\n")
            os.utime(os.path.join(self.proj.tmp, "unrelated.txt"), (_t.time() - 7200, _t.time() - 7200))
        if self.env.get("tmp") == "nonutf8":
            self.proj.tmp = os.fsdecode(os.fsencode(self.proj.tmp) + b"/t\xff")
            os.makedirs(self.proj.tmp)
        elif self.env.get("tmp") == "nested":
            self.proj.tmp = os.path.join(self.proj.tmp, "a b", "c")
            os.makedirs(self.proj.tmp)
        if self.ci_env:
            ci = os.path.join(self.proj.root, "tmp", "ci")
            os.makedirs(ci, exist_ok=True)
            with open(os.path.join(ci, "summary.md"), "w") as fh:
                fh.write("# earlier step\n")
        self.tmp_baseline = len(self.proj.tmp_entries())
        self._apply_config_class()
        self._apply_env()
        self.events.append({"ev": "init", "files": self._abs_tree(self.tree), "lock": self.abs_lock,
                            "maxid": self.maxid, "label": self.label, "present": self._present_list(), "bad": self._bad_list(),
                            "base": self.base, "must_fail": self.config_class != "ok", "opaque": bool(self.opaque),
                            "stdout": self.stdout_to or "pipe"})
        self.last_reports = None

    def _norm(self, slots):
        """'unusable' only exists in structured mode; elsewhere such a slot is rendered (and read back) as ignored"""
        out = []
        for s in slots:
            s = dict(s)
            if s["kind"] == "unusable" and not self.structured:
                s["kind"] = "ignored"
            out.append(s)
        return out

    def _norm_reports(self, reports):
        """file names in Breadlog's messages are spelled as the configuration spells them (relative to the working
        directory, with ./ and ../ components): bring them to the absolute normal form used for the generated files"""
        base = getattr(self, "cwd", None) or os.getcwd()
        return [(os.path.normpath(os.path.join(base, f)), ln, col) for (f, ln, col) in reports]

    def _apply_env(self):
        P, e = self.proj, self.env
        self.cwd = None
        self.tmp_arg = P.tmp
        if not e or self.config_class != "ok":
            return
        sd = e.get("srcdir", "rel")
        P.source_dir = {"rel": "src", "abs": P.src, "dotslash": "./src/", "updown": "src/../src"}[sd]
        P.write_config()
        cfg = e.get("cfg", "abs")
        if cfg == "abs":
            self.config_arg, self.cwd = P.config_path, None
        elif cfg == "bare":
            self.config_arg, self.cwd = "Breadlog.yaml", P.proj
        elif cfg == "dotrel":
            self.config_arg, self.cwd = "./Breadlog.yaml", P.proj
        elif cfg == "rel":
            self.config_arg, self.cwd = "proj/Breadlog.yaml", P.root
        elif cfg == "updown":
            self.config_arg, self.cwd = "../Breadlog.yaml", P.src
        elif cfg == "dotdot":
            self.config_arg, self.cwd = "../proj/Breadlog.yaml", P.proj
        else:
            raise ToolError("unknown config spelling " + cfg)
        if e.get("tmp") == "relative":
            if self.cwd is None:
                self.cwd = P.root
            self.tmp_arg = os.path.relpath(P.tmp, self.cwd)

    def _apply_config_class(self):
        """error classes of C16: the run must exit non-zero without changing anything"""
        P, c = self.proj, self.config_class
        self.config_arg = P.config_path
        if c == "ok":
            return
        if c == "missing":
            os.unlink(P.config_path)
        elif c == "invalid":
            with open(P.config_path, "w") as fh:
                fh.write("---\n: this is invalid YAML\n  -")
        elif c == "nosourcedir":
            P.source_dir = "does-not-exist"
            P.write_config()
        elif c == "sourcedirfile":
            with open(os.path.join(P.proj, "afile"), "w") as fh:
                fh.write("x\n")
            P.source_dir = "afile"
            P.write_config()
        elif c == "noinscope":
            P.extensions = ["zzz"]
            P.write_config()
        elif c == "emptyext":
            # an explicit empty extension list: no file is in scope
            P.extensions = []
            P.write_config()
        elif c == "nomacros":
            with open(P.config_path, "w") as fh:
                fh.write("---\nsource_dir: src\nrust:\n  structured: false\n")
        else:
            raise ToolError("unknown config class " + c)

    # -- id scaling -------------------------------------------------------------------------
    def real_id(self, a):
        return None if a is None else a + self.base

    def abs_id(self, r):
        if r is None:
            return NOREF
        v = r - self.base
        if -50 <= v <= self.maxid + 50:
            return v if v != -1 else -51
        if r < 1000:
            return -(100 + r)
        return -1000000

    def _real_lock(self, lock):
        """abstract lock spec -> value for Project.set_lock. lock: None | 'corrupt' | 'empty' | abstract int"""
        if lock is None or isinstance(lock, str):
            return lock
        return lock + self.base

    def _abs_lock(self, real):
        if real is None:
            return LABSENT
        if real == "corrupt":
            return LCORRUPT
        v = real - self.base
        if v < 0:
            # a lock below the window: keep it non-negative but small so that "dominates" fails
            return 0
        return min(v, self.maxid + 50) if self.base else min(v, BIGMAX + 50)

    def _present_list(self):
        return [bool(self.present.get(n)) for n in self.names]

    def _bad_list(self):
        return [bool(self.present.get(n)) and n in self.bad for n in self.names]

    def _abs_tree(self, tree):
        if self.opaque:
            return [[] for _ in self.names]
        out = []
        for n in self.names:
            out.append([{"uid": s["uid"], "ref": self.abs_id(s["ref"]) if s["ref"] is not None else NOREF,
                         "kind": s["kind"]} for s in tree.get(n, [])] if self.present.get(n) and n not in self.bad else [])
        return out

    # -- materialisation --------------------------------------------------------------------
    def _text(self, n):
        slots = [dict(s, ref=s["ref"]) for s in self.tree[n]]
        return bl.render_file(n, slots, self.structured, pad=self.pad, crlf=self.crlf,
                              prelude_unicode=self.unicode_prelude, pad_mode=self.pad_mode, head_style=self.head_style,
                              literal_prelude=self.literal_prelude)

    def _materialise(self, n):
        p = os.path.join(self.proj.src, n)
        if not self.present[n]:
            if os.path.exists(p):
                os.unlink(p)
            return
        if n in self.bad:
            data = b"// not utf-8 \xff\xfe\n" + self._text(n).encode("utf-8")
        else:
            data = self._text(n).encode("utf-8")
        os.makedirs(os.path.dirname(p), exist_ok=True)
        with open(p, "wb") as fh:
            fh.write(data)

    def _materialise_all(self):
        for n in self.names:
            self._materialise(n)

    def current_tree_from_disk(self):
        """Re-abstract the source files (real ids)."""
        t = {}
        for n in self.names:
            p = os.path.join(self.proj.src, n)
            if not os.path.exists(p):
                continue
            with open(p, "rb") as fh:
                data = fh.read()
            if n in self.bad:
                t[n] = []
                continue
            slots = bl.abstract_file(data.decode("utf-8", "replace"), self.structured)
            t[n] = [{"uid": s["uid"], "ref": s["ref"], "kind": s["kind"]} for s in slots]
        return t

    # -- developer edits ----------------------------------------------------------------------
    def dev(self, newtree):
        """Replace the tree by `newtree` (same representation, real ids); files whose slots changed are
        rewritten from the template."""
        for n in self.names:
            newp = n in newtree
            if newp != self.present[n] or (newp and self._norm(newtree[n]) != self.tree[n]):
                self.present[n] = newp
                self.tree[n] = self._norm(newtree.get(n, []))
                self._materialise(n)
        self.events.append({"ev": "dev", "files": self._abs_tree(self.tree), "lock": self.abs_lock,
                            "present": self._present_list(), "bad": self._bad_list()})
        self.last_reports = None

    def dev_set_lock(self, lock):
        self.proj.set_lock(self._real_lock(lock))
        self.abs_lock = self._abs_lock(self.proj.get_lock())
        self.events.append({"ev": "dev", "files": self._abs_tree(self.tree), "lock": self.abs_lock,
                            "present": self._present_list(), "bad": self._bad_list()})

    # -- runs -----------------------------------------------------------------------------
    def expected_missing(self):
        """per file: number of references a complete update inserts (generator ground truth)"""
        return {n: sum(1 for s in self.tree[n] if s["kind"] == "plain" and s["ref"] is None)
                for n in self.names if self.present[n]}

    def run(self, mode="edit", plan="", timeout=None, cwd=None):
        P = self.proj
        if timeout is None:
            # generous: Breadlog's time grows quadratically with the number of statements in one file (line/column
            # lookups rescan the file); 20 000 statements in 4 MB take about 70 s on this machine
            total = sum(os.path.getsize(os.path.join(dp, f)) for dp, dn, fn in os.walk(P.src) for f in fn)
            mb = total / 1e6
            timeout = 60 + int(60 * mb + 40 * mb * mb)
        cache = True if self.use_cache is None else self.use_cache
        src_paths = {os.path.join(P.src, n): i + 1 for i, n in enumerate(self.names)}
        before = {}
        for pth in src_paths:
            if os.path.exists(pth):
                with open(pth, "rb") as fh:
                    before[pth] = fh.read()
        snap_dirs = [P.proj, os.path.join(P.root, "tmp")] + ([P.tmp] if not P.tmp.startswith(P.root) else [])
        snap0 = bl.snapshot(snap_dirs)
        exp_missing = self.expected_missing()
        readable = [n for n in self.names if self.present[n] and n not in self.bad]
        start_idx = len(self.events)
        self.events.append({"ev": "start", "mode": mode, "cache": cache, "any_readable": bool(readable) and not self.opaque, "plan": plan,
                            "must_fail": self.config_class != "ok",
                            "cc": {"ok": "ok", "missing": "missing", "invalid": "invalid", "nomacros": "invalid",
                                   "nosourcedir": "nosourcedir", "sourcedirfile": "sourcedirfile"}.get(self.config_class, "noscope")})
        extra_env = None
        if self.ci_env:
            ci = os.path.join(P.root, "tmp", "ci")
            extra_env = {"CI": "true", "GITHUB_ACTIONS": "true", "GITHUB_STEP_SUMMARY": os.path.join(ci, "summary.md"),
                         "GITHUB_OUTPUT": os.path.join(ci, "output.txt"), "GITHUB_ENV": os.path.join(ci, "env.txt"),
                         "GITHUB_WORKSPACE": P.proj, "RUNNER_TEMP": ci, "XDG_CACHE_HOME": os.path.join(ci, "cache"),
                         "XDG_STATE_HOME": os.path.join(ci, "state"), "HOME": os.path.join(ci, "home")}
        r = bl.run_breadlog(self.binary, self.config_arg, check=(mode == "check"), tmpdir=self.tmp_arg,
                            roots=(P.proj, os.path.join(P.root, "tmp"), P.tmp), plan=plan, timeout=timeout,
                            cwd=cwd or self.cwd, logdir=os.path.join(P.root, "tmp"), extra_env=extra_env,
                            stdout_to=self.stdout_to)
        for o in r.events:
            # the interposer reports paths as given (relative ones joined onto the working directory), bytes as Latin-1
            for key in ("path", "path2"):
                if o.get(key):
                    pth = o[key]
                    try:
                        pth = pth.encode("latin-1").decode("utf-8", "surrogateescape")
                    except (UnicodeEncodeError, UnicodeDecodeError):
                        pass
                    o[key] = os.path.normpath(pth)
        snap1 = bl.snapshot(snap_dirs)
        # ---- post-state
        after = {}
        for pth in src_paths:
            if os.path.exists(pth):
                with open(pth, "rb") as fh:
                    after[pth] = fh.read()
        cls, pure = [], []
        inserted_ids = []
        for n in self.names:
            pth = os.path.join(P.src, n)
            if pth not in before:
                cls.append("gone")
                pure.append(True)
                continue
            if pth not in after:
                cls.append("other")
                pure.append(False)
                continue
            ok, toks = monitors.pure_insertion(before[pth], after[pth])
            pure.append(bool(ok))
            if ok and n not in self.bad:
                inserted_ids += [self.abs_id(ident) for (_ob, _oa, _tok, ident) in toks]
            if after[pth] == before[pth]:
                cls.append("orig")
            elif ok and len(toks) == exp_missing.get(n, 0):
                cls.append("new")
            else:
                cls.append("other")
        newtree = self.current_tree_from_disk()
        for n in self.names:
            if self.present[n] and n in newtree and n not in self.bad:
                self.tree[n] = newtree[n]
        real_lock = P.get_lock()
        self.abs_lock = self._abs_lock(real_lock)
        # others_same: everything except in-scope sources, the lock and the temp dir
        ignore = set(src_paths) | {P.lock_path}

        def others(s):
            return {k: (v[:3] + v[4:] if v[0] == "dir" else v) for k, v in s.items()
                    if k not in ignore and not k.startswith(P.tmp) and not k.startswith(P.lock_path)}
        # scratch files do not only live in TMPDIR: anything new in the project directory other than the lock file and the
        # sources is a temporary file that was left behind
        stray = [k for k in snap1 if k not in snap0 and (k == P.proj or k.startswith(P.proj + "/"))
                 and k != P.lock_path and k not in src_paths]
        o0, o1 = others(snap0), others(snap1)
        # directory mtimes change when entries are renamed into them; compare without dir mtimes
        others_same = (o0 == o1)
        snapeq = (snap0 == snap1)
        # ---- operations
        order = []
        for o in r.ops:
            if o["op"] == "open" and o["path"] in src_paths and src_paths[o["path"]] not in order:
                order.append(src_paths[o["path"]])
        self.events[start_idx]["order"] = order
        self._emit_ops(r, src_paths, before, after, cls, snap0)
        # ---- reports
        reported, total = [], -1
        if mode == "check":
            line_uid = {}
            for pth, data in before.items():
                n = os.path.basename(pth)
                if n in self.bad:
                    continue
                lines = data.decode("utf-8", "replace").split("\n")
                for ln, text in enumerate(lines, 1):
                    m = bl._STMT.match(text.rstrip("\r"))
                    if m:
                        line_uid[(pth, ln)] = int(m.group(5))
            for (f, ln, col) in self._norm_reports(r.missing_reports()):
                if not self.opaque:
                    reported.append(line_uid.get((f, ln), -7))
            t = r.total_missing()
            total = t if t is not None else -1
        pos_match = True
        if mode == "check" and r.exit_class in (0, "nonzero") and not plan:
            self.last_reports = (dict(before), sorted(self._norm_reports(r.missing_reports())))
        elif mode == "edit":
            if self.last_reports is not None and self.last_reports[0] == before and r.exit_class == 0 and not plan:
                ins = []
                for pth in sorted(before):
                    if pth in after and after[pth] != before[pth]:
                        ok, toks = monitors.pure_insertion(before[pth], after[pth])
                        if ok:
                            for (ob, oa, tok, ident) in toks:
                                ln, col = monitors.line_col(None, ob, data=before[pth])
                                ins.append((pth, ln, col))
                pos_match = sorted(ins) == self.last_reports[1]
                if not pos_match:
                    self.pos_mismatch = {"reported": self.last_reports[1][:10], "inserted": sorted(ins)[:10]}
            self.last_reports = None
        cnt = r.inserted_count() if mode == "edit" else None
        exitc = {0: 0, "nonzero": 2, "signal": 130, "killed": 137, "panic": 101, "timeout": 124}[r.exit_class]
        self.events.append({"ev": "end", "exit": exitc, "files": self._abs_tree(self.tree), "lock": self.abs_lock,
                            "cls": cls, "pure": pure, "tmpleft": max(0, len(P.tmp_entries()) - self.tmp_baseline) + len(stray), "snapeq": snapeq,
                            "others_same": others_same, "reported": sorted(reported), "total": total,
                            "count": cnt if cnt is not None else -1, "rc": r.rc if r.rc is not None else -1,
                            "pos_match": pos_match, "present": self._present_list(), "bad": self._bad_list(),
                            "inserted_ids": [] if self.opaque else sorted(inserted_ids)})
        self.runs.append({"start": start_idx, "end": len(self.events) - 1, "run": r, "plan": plan, "mode": mode})
        return r

    def _emit_ops(self, r, src_paths, before, after, cls, snap0):
        P = self.proj
        exists = set(k for k, v in snap0.items() if v[0] != "absent")
        tmp_ids = {}
        unlinked = set()
        scanning = False
        # post hoc: which tmp path ends up at which source file, and how long the complete content is
        last_rename = {}
        for o in r.ops:
            if o["op"] == "rename" and o["ret"] == 0 and o["path2"] in src_paths:
                last_rename[o["path2"]] = o["path"]
        final_of_tmp = {}
        for dst, tp in last_rename.items():
            i = src_paths[dst]
            if cls[i - 1] == "new" and dst in after:
                final_of_tmp[tp] = len(after[dst])

        def classify(path):
            if path == P.config_path:
                return "cfg", 0
            if path == P.lock_path or (path.startswith(P.lock_path) and os.path.dirname(path) == os.path.dirname(P.lock_path)):
                # the lock file or a scratch sibling of it (an implementation may write the lock through a temporary name)
                return "lock", 0
            if path in src_paths:
                return "src", src_paths[path]
            if path.startswith(P.tmp + "/"):
                if path not in tmp_ids:
                    tmp_ids[path] = len(tmp_ids) + 1
                return "tmp", tmp_ids[path]
            return "other", 0

        logs_by_seq = {}
        for lg in r.logs:
            logs_by_seq.setdefault(lg.get("seq"), []).append(lg)
        for o in r.events:
            if o["op"] == "out":
                # Breadlog's own log lines, in sequence with the operations
                for lg in logs_by_seq.get(o["seq"], []):
                    self.events.append({"ev": "log", "code": lg["code"], "level": lg["level"]})
                continue
            op, path, ok = o["op"], o["path"], (o["ret"] >= 0 and o["err"] == 0)
            if op in ("kill_before", "kill_after"):
                continue
            if op == "signal":
                self.events.append({"ev": "sig", "sig": o["n"], "k": o["k"]})
                continue
            if path == P.src or path.startswith(P.src + "/"):
                scanning = True
            c, ident = classify(path)
            dcls, dst = c, 0
            mut = False
            name = op
            ent = -2
            if op == "open":
                fl = o["flags"]
                creating = bool(fl & O_CREAT)
                trunc = bool(fl & O_TRUNC)
                name = "create" if (creating or trunc) else "open"
                if ok and (trunc or (creating and path not in exists)):
                    mut = True
                if ok and creating:
                    exists.add(path)
            elif op in ("write", "pwrite"):
                name = "write"
                mut = ok and o["ret"] > 0
                if path in unlinked:
                    # a write through a descriptor whose file has been unlinked (async-std flushes its cache when the
                    # handle is dropped): it reaches no file of any directory
                    name, mut = "write_orphan", False
            elif op == "rename":
                dcls, dst = classify(o["path2"])
                if dcls != "src":
                    dst = 0
                mut = ok
                if ok:
                    exists.discard(path)
                    exists.add(o["path2"])
            elif op in ("unlink", "rmdir"):
                name = "unlink"
                mut = ok
                if ok:
                    exists.discard(path)
                    unlinked.add(path)
            elif op in ("mkdir", "link", "symlink", "chmod", "chown", "utimens", "truncate", "ftruncate"):
                name = "other"
                mut = ok
            elif op in ("read",):
                name = "read"
            elif op in ("stat", "lstat", "opendir", "readdir"):
                name = "stat"
                if op == "readdir":
                    # which in-scope file the walk was handed (0: something else, -1: the directory is exhausted)
                    ent = src_paths.get(os.path.join(path, o["path2"]), 0) if o["ret"] > 0 else -1
            elif op == "fsync":
                name = "fsync"
            elif op == "close":
                continue
            else:
                name = "other"
            ev = {"ev": "op", "op": name, "cls": c, "dcls": dcls, "id": ident, "dst": dst, "ok": bool(ok), "mut": bool(mut),
                  "cum": o["cum"], "final": final_of_tmp.get(path, -1) if (c == "tmp" and name == "create") else -1,
                  "scan": scanning, "injected": o["fault"] in ("errno", "short"), "k": o["k"], "err": o["err"], "raw": op, "ent": ent}
            self.events.append(ev)

    def close(self):
        self.proj.close()


# ---------------------------------------------------------------------------------------------
# judging with TLC

_VIOL = re.compile(r'^"VIOL\|(\w+)\|(\w+)\|(\d+)\|(.*)"$')


def judge(histories_events, verdict, workdir=None, keep=None):
    """Concatenate the event lists, run Observe over them, and return a list of
    (property, check, event_index, detail) plus TLC statistics.  Raises ToolError when the trace is
    not accepted (an event Observe cannot consume is a harness bug)."""
    d = workdir or new_scratch("obs")
    path = os.path.join(d, "trace.ndjson")
    n = 0
    with open(path, "w") as fh:
        for evs in histories_events:
            for e in evs:
                fh.write(json.dumps(e) + "\n")
                n += 1
    r = run_tlc("Observe.tla", "Observe.cfg", workers=1, env={"TRACE": path}, coverage=False, deque=True, xmx="4g",
                timeout=3600)
    viols = []
    for line in r.out.splitlines():
        m = _VIOL.match(line.strip())
        if m:
            detail = m.group(4).replace('\\"', '"').replace("\\\\", "\\")
            viols.append((m.group(1), m.group(2), int(m.group(3)), detail))
    if "REJECTED" in r.out or not r.ok:
        rej = [l for l in r.out.splitlines() if "REJECTED" in l]
        if keep:
            os.replace(path, keep)
        raise ToolError("Observe did not accept the trace (%d events): %s\n%s" % (n, rej[:1], r.out[-2500:]))
    if workdir is None:
        rm_scratch(d)
    return viols, r, n


_ACC = re.compile(r'^"ACCEPT\|(\d+)"$')


RUNTRACE_MAXIDS = (4, 9)     # embeddings at the top of the ID range for which a RunTraceMax<k>.cfg exists


def runtrace_group(evs):
    """which configuration of RunTrace a history needs: 0 = ordinary IDs, k = abstract MaxId k (high embedding)"""
    init = evs[0]
    return 0 if init.get("base", 0) == 0 else init.get("maxid")


def runtrace(histories_events, max_files=5, maxid=0):
    """Implementation-level validation (spec/RunTrace.tla): returns (accepted end-event positions, all end-event
    positions, TLC result) for the eligible histories given as a list of event lists.  Positions are (history index,
    local event index)."""
    d = new_scratch("rt")
    path = os.path.join(d, "trace.ndjson")
    index = []          # global line number (1-based) of each end event -> (history, local)
    n = 0
    with open(path, "w") as fh:
        for hi, evs in enumerate(histories_events):
            for li, e in enumerate(evs):
                fh.write(json.dumps(e) + "\n")
                n += 1
                if e.get("ev") == "end":
                    index.append((n, hi, li))
    r = run_tlc("RunTrace.tla", "RunTraceMax%d.cfg" % maxid if maxid else "RunTrace.cfg", workers=1, env={"TRACE": path},
                coverage=False, xmx="6g", timeout=1800)
    rm_scratch(d)
    if r.error or r.violated:
        raise ToolError("RunTrace failed to run: %s %s\n%s" % (r.violated, (r.error or "")[:500], r.out[-1500:]))
    acc = set()
    for line in r.out.splitlines():
        m = _ACC.match(line.strip())
        if m:
            acc.add(int(m.group(1)))
    accepted = [(hi, li) for (g, hi, li) in index if g in acc]
    allruns = [(hi, li) for (g, hi, li) in index]
    return accepted, allruns, r


def runtrace_eligible(evs):
    init = evs[0]
    starts = [e for e in evs if e.get("ev") == "start"]
    return (init.get("ev") == "init" and (init.get("base", 0) == 0 or init.get("maxid") in RUNTRACE_MAXIDS) and not init.get("opaque")
            and init.get("stdout", "pipe") == "pipe"       # the model has no action for a failing write to standard output
            and all(e.get("cc", "ok") != "noscope" for e in starts)
            and 1 <= len(init.get("files", [])) <= 5 and sum(len(f) for f in init.get("files", [])) <= 60
            and "present" in init and any(len(f) for f in init["files"]) is not None
            and all(e.get("ev") != "start" or "order" in e for e in evs))
