"""Shared infrastructure of the Breadlog verification harness: paths, builds, scratch space,
running TLC, evidence files, violations and known findings."""
import json
import os
import re
import shutil
import subprocess
import sys
import time

VERIF = os.path.dirname(os.path.dirname(os.path.abspath(__file__)))
REPO = os.environ.get("VERIF_REPO", "/repo")
CACHE = os.path.join(VERIF, ".cache")
SPEC = os.path.join(VERIF, "spec")
EVIDENCE = os.environ.get("VERIF_EVIDENCE", os.path.join(VERIF, "evidence"))
REPLAYS = os.path.join(EVIDENCE, "replays")
SHIM_SRC = os.path.join(VERIF, "shim", "fsshim.c")
SHIM_SO = os.path.join(CACHE, "fsshim.so")
SCRATCH_ROOT = "/dev/shm"
NCPU = os.cpu_count() or 4

EXIT_OK, EXIT_VIOLATION, EXIT_TOOL = 0, 1, 2


class ToolError(Exception):
    """A failure of the verification machinery itself (exit status 2), never a verdict."""


def seed():
    try:
        return int(os.environ.get("VERIF_SEED", "0"))
    except ValueError:
        return 0


def log(*a):
    print(*a, flush=True)


# ---------------------------------------------------------------------------------------------
# builds

def _run(cmd, cwd=None, env=None, timeout=1800):
    p = subprocess.run(cmd, cwd=cwd, env=env, stdout=subprocess.PIPE, stderr=subprocess.STDOUT,
                       timeout=timeout, text=True)
    return p.returncode, p.stdout


def build_shim(force=False):
    os.makedirs(CACHE, exist_ok=True)
    if (not force and os.path.exists(SHIM_SO)
            and os.path.getmtime(SHIM_SO) >= os.path.getmtime(SHIM_SRC)):
        return SHIM_SO
    tmp = SHIM_SO + ".%d.tmp" % os.getpid()
    rc, out = _run(["gcc", "-O2", "-fPIC", "-shared", "-w", "-o", tmp, SHIM_SRC, "-ldl", "-lpthread"])
    if rc != 0:
        raise ToolError("cannot build fsshim: " + out)
    os.replace(tmp, SHIM_SO)
    return SHIM_SO


_built = {}


def build_breadlog(profile="release"):
    """Rebuild the binary from /repo's current working tree (incremental) and return its path."""
    if profile in _built:
        return _built[profile]
    env = dict(os.environ)
    env["CARGO_NET_OFFLINE"] = "true"
    env.pop("RUSTFLAGS", None)
    cmd = ["cargo", "build", "--offline", "--bin", "breadlog"]
    if profile == "release":
        cmd.append("--release")
    t0 = time.time()
    rc, out = _run(cmd, cwd=REPO, env=env, timeout=3600)
    if rc != 0:
        raise ToolError("cargo build failed:\n" + out[-4000:])
    path = os.path.join(REPO, "target", "release" if profile == "release" else "debug", "breadlog")
    if not os.path.exists(path):
        raise ToolError("binary missing after build: " + path)
    # run a private copy so that a concurrent rebuild cannot replace the file under a running check
    os.makedirs(CACHE, exist_ok=True)
    priv = os.path.join(CACHE, "breadlog-%s-%d" % (profile, os.getpid()))
    shutil.copy2(path, priv)
    _built[profile] = priv
    log("[build] %s binary ready in %.1fs" % (profile, time.time() - t0))
    return priv


def cleanup_private_binaries():
    for p in list(_built.values()):
        try:
            os.unlink(p)
        except OSError:
            pass
    _built.clear()


# ---------------------------------------------------------------------------------------------
# scratch space

_scratch_n = [0]


def new_scratch(tag="s"):
    _scratch_n[0] += 1
    d = os.path.join(SCRATCH_ROOT, "verif-%d-%s-%d" % (os.getpid(), tag, _scratch_n[0]))
    if os.path.exists(d):
        shutil.rmtree(d, ignore_errors=True)
    os.makedirs(d)
    return d


def rm_scratch(d):
    shutil.rmtree(d, ignore_errors=True)


def cleanup_all_scratch():
    pref = "verif-%d-" % os.getpid()
    for n in os.listdir(SCRATCH_ROOT):
        if n.startswith(pref):
            shutil.rmtree(os.path.join(SCRATCH_ROOT, n), ignore_errors=True)


# ---------------------------------------------------------------------------------------------
# TLC

class TlcResult:
    def __init__(self):
        self.rc = None
        self.out = ""
        self.generated = 0
        self.distinct = 0
        self.depth = 0
        self.violated = None      # name of a violated invariant/property, if any
        self.error = None         # other error text
        self.coverage = {}        # action name -> (distinct, total) from -coverage
        self.printed = []         # PrintT outputs
        self.wall = 0.0

    @property
    def ok(self):
        return self.rc == 0 and self.violated is None and self.error is None


_ACTION_COV = re.compile(r"^<(\w+) line \d+, col \d+ to line \d+, col \d+ of module (\w+)>: (\d+):(\d+)")


def run_tlc(module, cfg, workers=None, env=None, simulate=None, depth=None, extra=None, timeout=3600,
            coverage=True, deque=False, xmx="8g", cwd=None, seed_val=None):
    """Run TLC on spec/<module>.tla with spec/<cfg>. Returns a TlcResult (never raises on a
    property violation; raises ToolError when TLC could not run at all)."""
    cwd = cwd or SPEC
    meta = os.path.join(SCRATCH_ROOT, "verif-tlc-%d-%d" % (os.getpid(), int(time.time() * 1000) % 10 ** 9))
    cmd = ["tlc", "-workers", str(workers or "auto"), "-config", cfg, "-metadir", meta, "-cleanup",
           "-noGenerateSpecTE"]
    if coverage:
        cmd += ["-coverage", "1"]
    if simulate:
        cmd += ["-simulate", "num=%d" % simulate]
        if depth:
            cmd += ["-depth", str(depth)]
        if seed_val is not None:
            cmd += ["-seed", str(seed_val)]
    if extra:
        cmd += extra
    cmd.append(module)
    e = dict(os.environ)
    jopts = "-Xss1g -Xmx%s" % xmx
    if deque:
        jopts += " -Dtlc2.tool.queue.IStateQueue=StateDeque"
    e["JAVA_TOOL_OPTIONS"] = jopts
    e["JAVA_OPTS"] = jopts
    if env:
        e.update(env)
    t0 = time.time()
    try:
        p = subprocess.run(cmd, cwd=cwd, env=e, stdout=subprocess.PIPE, stderr=subprocess.STDOUT,
                           timeout=timeout, text=True, errors="replace")
    except subprocess.TimeoutExpired:
        shutil.rmtree(meta, ignore_errors=True)
        raise ToolError("TLC timed out on %s/%s" % (module, cfg))
    shutil.rmtree(meta, ignore_errors=True)
    r = TlcResult()
    r.rc = p.returncode
    r.out = p.stdout
    r.wall = time.time() - t0
    for line in p.stdout.splitlines():
        m = re.search(r"(\d+) states generated, (\d+) distinct states found", line)
        if m:
            r.generated, r.distinct = int(m.group(1)), int(m.group(2))
        m = re.search(r"The depth of the complete state graph search is (\d+)", line)
        if m:
            r.depth = int(m.group(1))
        m = re.search(r"Invariant (\w+) is violated", line)
        if m:
            r.violated = m.group(1)
        m = re.search(r"Action property (\w+) is violated|Temporal properties were violated", line)
        if m and not r.violated:
            r.violated = m.group(1) or "temporal"
        m = re.search(r"The postcondition has failed|Postcondition.*violated", line)
        if m and not r.violated:
            r.violated = "POSTCONDITION"
        m = _ACTION_COV.match(line)
        if m:
            r.coverage[m.group(1)] = (int(m.group(3)), int(m.group(4)))
        if line.startswith("<<") or line.startswith('"'):
            r.printed.append(line)
    if r.rc != 0 and r.violated is None:
        m = re.search(r"(Error:.*|Parsing or semantic analysis failed.*|\*\*\* Errors:.*)", p.stdout, re.S)
        r.error = (m.group(1) if m else p.stdout)[-3000:]
    return r


def require_tlc_ok(r, what, need_actions=()):
    """Design-level model checking must succeed and must not be vacuous."""
    if not r.ok:
        raise ToolError("TLC on %s failed: violated=%s error=%s\n%s" % (what, r.violated, r.error, r.out[-3000:]))
    for a in need_actions:
        if a not in r.coverage or r.coverage[a][1] == 0:
            raise ToolError("vacuity: action %s never taken in %s (coverage %s)" % (a, what, r.coverage.get(a)))


# ---------------------------------------------------------------------------------------------
# verdicts

def validate_evidence(path, schema="/root/.vp/EVIDENCE.schema.json"):
    """Validate an evidence file with the tooling interpreter (jsonschema lives there); returns an error text or None.
    Skipped silently when the schema or the interpreter is not available."""
    import shutil
    import subprocess
    py = shutil.which("python3-vt")
    if not py or not os.path.exists(schema):
        return None
    code = ("import json,sys,jsonschema\n"
            "v=jsonschema.Draft202012Validator(json.load(open(sys.argv[1])))\n"
            "errs=[('/'.join(map(str,e.path))+': '+e.message[:200]) for e in v.iter_errors(json.load(open(sys.argv[2])))]\n"
            "print('\\n'.join(errs[:5]))\n")
    try:
        p = subprocess.run([py, "-c", code, schema, path], stdout=subprocess.PIPE, stderr=subprocess.PIPE, text=True, timeout=120)
    except (OSError, subprocess.TimeoutExpired):
        return None
    if p.returncode != 0:
        return None           # the validator itself could not run: not a statement about the evidence
    return p.stdout.strip() or None


class Verdict:
    """Collects what a check run covered and found; writes the evidence file; sets exit status."""

    def __init__(self, prop, tier, level="model_checking"):
        self.prop = prop
        self.tier = tier
        self.level = level
        self.t0 = time.time()
        self.violations = []      # (signature, description, replay path)
        self.known_hits = {}      # finding id -> description
        self.drift = []
        self.cov = {"states": 0, "transitions": 0, "traces_validated_against_impl": 0, "samples": [],
                    "evaluations": 0, "distinct_nontrivial": 0, "rule": "", "exhaustive": False}
        self.assumptions = []
        self.findings = load_known_findings()
        self._distinct = set()
        self._replay_keys = {}
        self._last_replay = None
        # stale replay files of this property belong to an earlier run
        if os.path.isdir(REPLAYS):
            for n in os.listdir(REPLAYS):
                if n.startswith(prop + "-"):
                    try:
                        os.unlink(os.path.join(REPLAYS, n))
                    except OSError:
                        pass

    # coverage helpers
    def add_tlc(self, r, name=None):
        self.cov["states"] += r.distinct
        self.cov["transitions"] += r.generated
        self.cov.setdefault("tlc_runs", []).append(
            {"spec": name, "distinct_states": r.distinct, "states_generated": r.generated, "depth": r.depth,
             "wall_s": round(r.wall, 1)})

    def sample(self, s, limit=6):
        if len(self.cov["samples"]) < limit:
            self.cov["samples"].append(s)

    def evaluated(self, key=None, nontrivial=True):
        self.cov["evaluations"] += 1
        if key is not None and nontrivial:
            self._distinct.add(key)

    def violation(self, signature, description, replay_obj):
        """signature: dict of the scenario class; matched against open known findings."""
        for f in self.findings:
            if f.get("status") == "open" and f.get("property") == self.prop and finding_matches(f, signature):
                self.known_hits.setdefault(f["id"], f.get("what", f.get("description", "")))
                return False
        os.makedirs(REPLAYS, exist_ok=True)
        key = tuple(signature.get(k) for k in ("check", "fault", "at", "mode", "head", "msg", "layout", "context", "expected",
                                               "target", "structured", "file_level", "dir"))
        if key in self._replay_keys or len(self._replay_keys) >= 80:
            path = self._replay_keys.get(key) or self._last_replay
        else:
            path = os.path.join(REPLAYS, "%s-%d.json" % (self.prop, len(self._replay_keys) + 1))
            with open(path, "w") as fh:
                json.dump({"property": self.prop, "signature": signature, "description": description,
                           "replay": replay_obj}, fh, indent=1, default=str)
            self._replay_keys[key] = path
            self._last_replay = path
        self.violations.append((signature, description, path))
        return True

    def finish(self):
        self.cov["distinct_nontrivial"] = len(self._distinct)
        ev = {
            "property_id": self.prop,
            "tier": self.tier,
            "seed": seed(),
            "level": self.level,
            "coverage": self.cov,
            "assumptions": self.assumptions,
            "wall_s": round(time.time() - self.t0, 2),
            "violations": len(self.violations),
            "known_findings_observed": sorted(self.known_hits),
            "spec_drift": self.drift[:20],
        }
        os.makedirs(EVIDENCE, exist_ok=True)
        tmp = os.path.join(EVIDENCE, ".%s.json.tmp" % self.prop)
        with open(tmp, "w") as fh:
            json.dump(ev, fh, indent=1, default=str)
        os.replace(tmp, os.path.join(EVIDENCE, "%s.json" % self.prop))
        problem = validate_evidence(os.path.join(EVIDENCE, "%s.json" % self.prop))
        if problem:
            raise ToolError("evidence file does not validate against the schema: " + problem)
        for fid, what in sorted(self.known_hits.items()):
            log("KNOWN-FINDING: property=%s %s (%s)" % (self.prop, what, fid))
        for d in self.drift[:10]:
            log("SPEC-DRIFT: property=%s %s" % (self.prop, d))
        seen = set()
        for sig, desc, path in self.violations:
            key = tuple(sig.get(k) for k in ("check", "fault", "at", "mode", "head", "msg", "layout", "context", "expected",
                                             "target", "structured", "file_level", "dir"))
            if key in seen:
                continue
            seen.add(key)
            log("VIOLATION property=%s replay=%s" % (self.prop, path))
            log("  " + desc[:600])
            if len(seen) >= 12:
                break
        if len(self.violations) > len(seen):
            log("  (%d violating cases in total; one line per distinct class shown)" % len(self.violations))
        log("[%s/%s] evaluations=%d distinct=%d states=%d traces=%d violations=%d known=%d wall=%.1fs" % (
            self.prop, self.tier, self.cov["evaluations"], self.cov["distinct_nontrivial"], self.cov["states"],
            self.cov["traces_validated_against_impl"], len(self.violations), len(self.known_hits),
            time.time() - self.t0))
        return EXIT_VIOLATION if self.violations else EXIT_OK


def load_known_findings():
    p = os.path.join(VERIF, "known_findings.json")
    if not os.path.exists(p):
        return []
    with open(p) as fh:
        return json.load(fh).get("findings", [])


def finding_matches(f, signature):
    """A finding lists required key/value pairs (value may be a list of alternatives)."""
    want = f.get("signature", {})
    if not want:
        return False
    for k, v in want.items():
        got = signature.get(k)
        if isinstance(v, list):
            if got not in v:
                return False
        elif got != v:
            return False
    return True


def main_wrapper(fn):
    """Run a check function, mapping tool failures to exit status 2."""
    try:
        rc = fn()
    except ToolError as e:
        log("TOOL-ERROR: %s" % e)
        rc = EXIT_TOOL
    except subprocess.TimeoutExpired as e:
        log("TOOL-ERROR: timeout %s" % e)
        rc = EXIT_TOOL
    finally:
        cleanup_all_scratch()
        cleanup_private_binaries()
    sys.exit(rc)
