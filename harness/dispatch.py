import os
import sys

import common


def main(argv):
    if not argv:
        print("usage: check <property> [--tier quick|thorough] | check replay <path>")
        sys.exit(2)
    tier = os.environ.get("VERIF_TIER", "quick")
    if "--tier" in argv:
        tier = argv[argv.index("--tier") + 1]
    prop = argv[0]
    if prop == "replay":
        import replay
        common.main_wrapper(lambda: replay.main(argv[1]))
        return
    import checks_run
    import checks_stmt
    table = {}
    table.update(checks_run.TABLE)
    table.update(checks_stmt.TABLE)
    if prop not in table:
        print("unknown property", prop)
        sys.exit(2)
    common.main_wrapper(lambda: table[prop](tier))
