"""Regenerate /verif/MANIFEST.json from the table below (run after adding or changing a check)."""
import json
import os

VERIF = os.path.dirname(os.path.dirname(os.path.abspath(__file__)))

RUN_NOTE = ("Trusted base: TLC; the LD_PRELOAD interposer (operations are observed and faulted at libc entry points); the "
            "harness' renderer/abstraction between abstract trees and generated Rust text; bounded constants of the "
            "model (printed in the evidence).")
STMT_NOTE = ("Trusted base: TLC; the renderer from feature records to Rust text with recorded offsets and its inverse; "
             "the bounded feature space stated in the evidence.")

CHECKS = {
    "C01": dict(
        text="TLC checks UniqueInRange on every pre-state of BreadlogRun (IDs incl. 0 and the maximum, unusable/ignored statements, "
             "every lock value, cache on/off); TLC's own initial states are dumped and replayed on the binary in two ID embeddings "
             "(base 0 and MaxId = u32::MAX) and both styles; Observe.tla judges every recorded run; a sample is also replayed "
             "through BreadlogRun's own actions (RunTrace.tla, drift only). Thorough tier: Apalache discharges the allocator's "
             "inductive invariant over unbounded IDs (spec/alloc).",
        technique="TLA+ model checked by TLC + replay of TLC-enumerated pre-states judged by trace validation (Observe.tla)",
        ref="5 C01", note=RUN_NOTE),
    "C02": dict(
        text="TLC checks LockDominates/NoReuse over histories of runs and developer edits with an I/O failure and a stop signal per "
             "run (kill and lock-write failure are refuted by TLC as expected: known findings); simulated model histories and fault "
             "sweeps with follow-up edits are replayed; Observe.tla keeps the ghost relation ID -> statement across each history; "
             "RunTrace.tla checks a sample of the runs against the model's own actions. Thorough tier: Apalache inductive invariant "
             "over unbounded IDs, with the kill variant refuted.",
        technique="TLA+ model of histories checked by TLC + replay of simulated behaviours and fault sweeps judged by Observe.tla",
        ref="5 C02", note=RUN_NOTE),
    "C05": dict(
        text="TLC checks VerdictExact / ReportedExact / CheckPredictsEdit on BreadlogRun; check-edit-check sequences on TLC's "
             "pre-states are executed and judged by Observe.tla, including (file, line, column) of every report against the insertion "
             "offsets of the following edit.",
        technique="TLA+ model checked by TLC + replay judged by Observe.tla with an independent line/column counter",
        ref="5 C05", note=RUN_NOTE),
    "C06": dict(
        text="TLC checks FixpointCheck / FixpointEdit over three-run histories; check-edit-check-edit plus a read-back step are "
             "executed on TLC's pre-states and judged by Observe.tla.",
        technique="TLA+ model checked by TLC + four-step replay judged by Observe.tla",
        ref="5 C06", note=RUN_NOTE),
    "C03": dict(
        text="Rewrite.tla models the copy-through rewriter with its byte cursor and write cache; TLC checks that erasing the tokens "
             "gives back the input for every content/insertion-point/cache-capacity combination; every enumerated case and the "
             "statement, hostile and corpus inputs are executed with a byte-level monitor (after minus inserted tokens = before).",
        technique="TLA+ rewriter model checked by TLC + enumerated cases replayed with a pure-insertion monitor on every edit",
        ref="5 C03", note=STMT_NOTE),
    "C09": dict(
        text="LogStmt.tla (with the log crate's grammar transcribed as Accepts/CarriedRef) is checked by TLC over the compile-safe "
             "feature space; sampled cases become one function each in a generated crate that is compiled and run before and after "
             "the edit; records are compared per statement.",
        technique="TLA+ feature-space model checked by TLC + compile-and-run differential of generated programs",
        ref="5 C09", note=STMT_NOTE + " rustc and log 0.4.22 (feature kv) from the offline cargo cache."),
    "C15": dict(
        text="Scope.tla defines InScope and the path-resolution rules; TLC enumerates layouts x extension lists x source_dir spellings x "
             "invocations; each is materialised with real directories and symlinks and executed; scanned/modified sets and the lock "
             "location are compared.",
        technique="TLA+ scope model enumerated by TLC + one real directory layout per enumerated case",
        ref="5 C15", note=STMT_NOTE),
    "C17": dict(
        level="exploration",
        text="Hostile.tla enumerates every short sequence over an alphabet of tool-breaking fragments; each is a file run through both "
             "modes with termination and pure-insertion monitors, together with corpora, statement families, the u32 boundary and large "
             "inputs. Exploration guided by a model, not a decision over all byte strings.",
        technique="TLA+-enumerated hostile inputs + corpora with termination monitors",
        ref="5 C17 and 6", note=STMT_NOTE),
    "C10": dict(
        text="LogStmt.tla gives every statement feature record its required outcome and reference place and TLC checks the "
             "round-trip/acceptance invariants over the enumerated space; every enumerated record (head x target x key-values x "
             "message class x trailing args x layout x context x mode) is rendered and executed on the binary, packed, and the "
             "observed report, insertion offset and token are compared with the specification's.",
        technique="TLA+ feature-space model enumerated and checked by TLC + one implementation test per enumerated case",
        ref="5 C10", note=STMT_NOTE),
    "C11": dict(
        text="LogStmt.tla marks decoy heads as NotAStatement (invariant OthersUntouched); TLC enumerates decoys interleaved with real "
             "statements; every case is executed and must be neither reported nor edited, including files ending in a comment "
             "without newline.",
        technique="TLA+ feature-space model enumerated by TLC + one implementation test per enumerated case",
        ref="5 C11", note=STMT_NOTE),
    "C12": dict(
        text="RefToken.tla defines the token language declaratively and as an automaton; TLC checks their agreement on every string "
             "up to the bound and on boundary numbers; every string becomes the start of a message literal executed on the binary.",
        technique="TLA+ token-language model checked by TLC (declarative vs automaton) + one implementation test per string",
        ref="5 C12", note=STMT_NOTE),
    "C13": dict(
        text="LogStmt.tla structured semantics (placement after target, separator rule, existing/unusable ref keys, single ref) "
             "checked by TLC over every key-value sequence up to the bound; every case executed and compared.",
        technique="TLA+ feature-space model checked by TLC + one implementation test per enumerated case",
        ref="5 C13", note=STMT_NOTE),
    "C14": dict(
        text="Directives.tla defines Effect(lines, i) over files as line sequences; TLC checks its consistency invariants and "
             "enumerates every file up to the bound; every file is executed in both modes and compared.",
        technique="TLA+ line-sequence model checked by TLC + one implementation test per enumerated file",
        ref="5 C14", note=STMT_NOTE),
    "C16": dict(
        text="TLC checks the switch/default/error-exit invariants of BreadlogRun; the whole configuration space is replayed, also as "
             "two-run histories, and judged by Observe.tla.",
        technique="TLA+ model checked by TLC + exhaustive replay of the configuration space judged by Observe.tla",
        ref="5 C16", note=RUN_NOTE),
    "C04": dict(
        text="TLC checks the action property CheckReadOnly on BreadlogRun (every configuration, fault, signal and kill "
             "placement of a check run); every recorded --check execution over the configuration space and under faults "
             "is validated by Observe.tla (no mutating operation in the trace; identical deep snapshot).",
        technique="TLA+ model (BreadlogRun) checked by TLC + trace validation of recorded runs against Observe.tla",
        ref="5 C04", note=RUN_NOTE),
    "C07": dict(
        text="TLC checks AtomicFiles in every state of BreadlogRun with kill and I/O failures enabled at every step; the "
             "real binary is run with a kill before/after and an errno at every filesystem operation of an edit run and "
             "every recorded trace is validated by Observe.tla, which evaluates the crash view after every event; a sample of the "
             "runs must also be behaviours of BreadlogRun (RunTrace.tla); a binding self-test corrupts one trace field at a time and "
             "requires both trace specifications to reject it.",
        technique="TLA+ model checked by TLC + exhaustive fault placement on the binary judged by trace validation (Observe.tla)",
        ref="5 C07", note=RUN_NOTE),
    "C08": dict(
        text="TLC checks FailureMeansNonZero / ExitZeroDone / NoTmpLeft with up to three I/O failures on any files; single "
             "and multiple injected failures (incl. a real cross-device TMPDIR) are replayed on the binary and judged by "
             "Observe.tla, each followed by a --check.",
        technique="TLA+ model checked by TLC + fault injection replay judged by trace validation (Observe.tla)",
        ref="5 C08", note=RUN_NOTE),
    "C18": dict(
        text="TLC checks the stop-request invariants with a signal enabled in every state of both modes and the liveness "
             "property stop ~> exit under weak fairness; SIGINT and SIGTERM are delivered before every operation of real "
             "check and edit runs and the traces are judged by Observe.tla.",
        technique="TLA+ model (safety + liveness) checked by TLC + signal placement at every operation judged by Observe.tla",
        ref="5 C18", note=RUN_NOTE),
}


def main():
    props = [json.loads(l)["id"] for l in open(os.path.join(VERIF, "properties.jsonl"))]
    checks = []
    for pid in props:
        if pid not in CHECKS:
            continue
        c = CHECKS[pid]
        checks.append({
            "property_id": pid,
            "quick_cmd": "./check %s --tier quick" % pid,
            "thorough_cmd": "./check %s --tier thorough" % pid,
            "evidence_file": "evidence/%s.json" % pid,
            "replay_cmd_template": "./check replay {path}",
            "engine": "tlc+harness",
            "level_claimed": {"category": c.get("level", "model_checking"), "text": c["text"],
                              "design_ref": "DESIGN.md section " + c["ref"]},
            "level_note": c["note"],
            "technique": c["technique"],
        })
    na = [{"property_id": p, "reason": "check under construction in this round; not yet claimed"}
          for p in props if p not in CHECKS]
    m = {
        "version": 1,
        "setup_cmd": "./setup.sh",
        "hooks": {
            "guard": "breadlog_verif",
            "enable": "none needed: the machinery observes the unmodified release binary (rebuilt from /repo's working "
                      "tree by every check) through an LD_PRELOAD interposer; there are no source hooks",
            "baseline_off_cmd": "cd /repo && cargo test --workspace --no-fail-fast --offline",
            "source_commits": [],
            "add_only": True,
        },
        "engines": [{"name": "tlc+harness", "path": "check",
                     "serves_properties": [c["property_id"] for c in checks],
                     "kind_free_text": "TLA+ specifications in spec/ checked by TLC; Python harness in harness/ that replays "
                                       "model scenarios on the real binary and validates recorded traces against the "
                                       "trace specifications"}],
        "checks": checks,
        "notes": "See DESIGN.md. known_findings.json lists genuine defects (fixed ones with their commit).",
        "not_applicable": na,
    }
    with open(os.path.join(VERIF, "MANIFEST.json"), "w") as fh:
        json.dump(m, fh, indent=1)
    print("MANIFEST: %d checks, %d not applicable" % (len(checks), len(na)))


if __name__ == "__main__":
    main()
