#!/bin/bash
# Run every check of one tier in sequence and print one summary line per check (convenience for long background runs).
tier=${1:-quick}
cd "$(dirname "$0")/.."
./setup.sh >/dev/null 2>&1
for i in 01 02 03 04 05 06 07 08 09 10 11 12 13 14 15 16 17 18; do
  ./check C$i --tier $tier 2>&1 | grep -E "VIOLATION|TOOL-ERROR|/$tier\]|Traceback|SPEC-DRIFT" | cut -c1-400 | head -8
  echo "C$i exit=${PIPESTATUS[0]}"
done
