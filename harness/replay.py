"""./check replay <path>: re-execute the scenario recorded in a replay file against the binary built from /repo's
current working tree and report whether the violation is still observed."""
import json
import os

import common
from common import Verdict, log


def main(path):
    with open(path) as fh:
        d = json.load(fh)
    prop = d["property"]
    rep = d["replay"]
    os.environ["VERIF_EVIDENCE"] = os.path.join(common.SCRATCH_ROOT, "verif-replay-evidence-%d" % os.getpid())
    common.EVIDENCE = os.environ["VERIF_EVIDENCE"]
    common.REPLAYS = os.path.join(common.EVIDENCE, "replays")
    v = Verdict(prop, "quick")
    v.findings = []          # a replay reports what it sees, known or not
    binary = common.build_breadlog()
    log("replaying %s: %s" % (path, d.get("description", "")[:300]))
    if isinstance(rep, dict) and rep.get("scenario") and rep.get("steps"):
        import runlevel as rl
        sd = dict(rep["scenario"])
        name = sd.pop("name")
        tree = sd.pop("tree")
        sc = rl.Scenario(name, tree, **{k: (tuple(v2) if k == "bad" else v2) for k, v2 in sd.items()})
        steps = []
        for s in rep["steps"]:
            if isinstance(s, (list, tuple)):
                steps.append(tuple(s))
            elif isinstance(s, dict):          # a model history step
                steps.append(("model", [s]))
        batch = rl.Batch()
        rl.planned_runs(binary, sc, [steps], batch, v, follow=rep.get("follow"))
        res = batch.judge(v, {prop})
        for p, name, meta, local, detail in res:
            log("  observed: %s.%s at event %d: %s" % (p, name, local, detail[:200]))
    elif isinstance(rep, dict) and rep.get("case") is not None:
        import checks_stmt as cs
        case = rep["case"]
        if "s" in case and "outcome" in case:
            cs.run_cases(binary, [case], v, {prop, "C03", "C05", "C06", "C10", "C11", "C12", "C13", "C14"}, "replay")
        elif "layout" in case:
            import scope
            problems, obs = scope.run_case((binary, case))
            for p, text in problems:
                v.violation({"check": "Scope"}, text, {"case": case})
        else:
            log("  this replay file records a case kind that is re-run by its check; run ./check %s" % prop)
    elif isinstance(rep, dict) and rep.get("tokens") is not None:
        import hostile
        out = hostile.run_batch((binary, bool(rep.get("structured")), {"h.rs": rep["content"].encode("utf-8")}, False))
        for mode, cls, err, culprits in out.abnormal:
            v.violation({"check": "NoPanicNoHang"}, "breadlog %s in %s mode: %s" % (cls, mode, err[-200:]), rep)
        for fn, text in out.problems:
            v.violation({"check": "HostileMonitor"}, text, rep)
    else:
        log("  unrecognised replay format; run ./check %s" % prop)
    n = len(v.violations)
    log("replay result: %s" % ("violation reproduced (%d)" % n if n else "not reproduced on the current tree"))
    for sig, desc, p2 in v.violations[:5]:
        log("  " + desc[:400])
    import shutil
    shutil.rmtree(common.EVIDENCE, ignore_errors=True)
    return common.EXIT_VIOLATION if n else common.EXIT_OK
