"""C15: materialise the layouts enumerated by spec/Scope.tla, run check and edit from the given invocation directory
with the given spelling of the configuration path, and compare scanned / modified files and the lock location."""
import os
import shutil

import bl
from common import new_scratch, rm_scratch

STMT = 'fn f() {{\n    info!("s{0} scoped");\n}}\n'
MACROS = bl.DEFAULT_MACROS


def materialise(case):
    root = new_scratch("sc")
    proj = os.path.join(root, "work", "proj")
    src = os.path.join(proj, "src")
    os.makedirs(os.path.join(src, "sub"))
    os.makedirs(os.path.join(proj, "outside"))
    os.makedirs(os.path.join(root, "tmp"))
    n = [0]

    def put(rel):
        p = os.path.join(proj, rel)
        os.makedirs(os.path.dirname(p), exist_ok=True)
        n[0] += 1
        with open(p, "w") as fh:
            fh.write(STMT.format(n[0]))
    # fixed furniture: an enclosing directory that is a Breadlog project of its own (its lock is not ours), link targets
    with open(os.path.join(root, "work", "Breadlog.lock"), "w") as fh:
        fh.write(bl.LOCK_HEADER + "next_reference_id: 50\n")
    put("src/real_target.dat")
    put("outside/o_target.rs")
    for e in case["layout"]:
        if e == "src/dir.rs":
            os.makedirs(os.path.join(proj, e), exist_ok=True)
            put("src/dir.rs/note.md")
        elif e == "src/link_in.rs":
            os.symlink("real_target.dat", os.path.join(proj, e))
        elif e == "src/link_out.rs":
            os.symlink("../outside/o_target.rs", os.path.join(proj, e))
        elif e == "src/linkdir_in":
            put("src/sub/viaLink.rs.keep")
            os.symlink("sub", os.path.join(proj, e))
        elif e == "src/linkdir_out":
            os.symlink("../outside", os.path.join(proj, e))
        elif e == "src/pipe.rs":
            os.mkfifo(os.path.join(proj, e))
        elif e == "src/sub/sock.rs":
            import socket
            so = socket.socket(socket.AF_UNIX)
            so.bind(os.path.join(proj, e))
            so.close()
        elif e == "src/readonly.rs":
            put(e)
            os.chmod(os.path.join(proj, e), 0o444)
        elif e == "src/hardlinked.rs":
            put(e)
            os.link(os.path.join(proj, e), os.path.join(proj, "outside", "hardlinked_copy.rs"))
        elif e == "src/sub/b.rs.tmp":
            # a look-alike sibling of an in-scope file that is a link to a file outside the tree
            os.symlink("../../outside/o_target.rs", os.path.join(proj, e))
        else:
            put(e)
    if case["sd"] == "hidden":
        # the source directory is a dot-directory; a look-alike directory without the dot is a trap
        os.rename(src, os.path.join(proj, ".src"))
        os.makedirs(os.path.join(proj, "src"))
        with open(os.path.join(proj, "src", "trap.rs"), "w") as fh:
            fh.write(STMT.format(999))
    elif case["sd"] == "updown":
        os.makedirs(os.path.join(proj, "proj", "src"))
        with open(os.path.join(proj, "proj", "src", "trap.rs"), "w") as fh:
            fh.write(STMT.format(998))
    sd = {"rel": "src", "dotrel": "./src", "abs": src, "updown": "../proj/src", "hidden": ".src"}[case["sd"]]
    y = "---\nsource_dir: %s\nrust:\n  log_macros:\n" % sd
    for mod, name in MACROS:
        y += "    - module: %s\n      name: %s\n" % (mod, name)
    if case["exts"] != ["default"]:
        y += "  extensions:\n" + "".join("    - %s\n" % x for x in case["exts"])
    with open(os.path.join(proj, "Breadlog.yaml"), "w") as fh:
        fh.write(y)
    return root, proj


def invocation(root, proj, inv):
    cwdk, spell = inv
    cwd = {"cfgdir": proj, "parent": os.path.dirname(proj), "root": "/"}[cwdk]
    cfg = os.path.join(proj, "Breadlog.yaml")
    if spell == "linkcfg":
        # the real file lives in a sibling directory that has its own (out of scope) src tree
        shared = os.path.join(os.path.dirname(proj), "shared")
        os.makedirs(os.path.join(shared, "src"), exist_ok=True)
        os.replace(cfg, os.path.join(shared, "Breadlog.yaml"))
        os.symlink("../shared/Breadlog.yaml", cfg)
        with open(os.path.join(shared, "src", "trap.rs"), "w") as fh:
            fh.write(STMT.format(997))
        arg = os.path.relpath(cfg, cwd) if cwdk != "cfgdir" else "Breadlog.yaml"
    elif spell == "bare":
        arg = "Breadlog.yaml"
    elif spell == "abs":
        arg = cfg
    else:
        arg = os.path.relpath(cfg, cwd)
        if cwdk == "cfgdir":
            arg = "./Breadlog.yaml"
    return cwd, arg


def run_case(job):
    binary, case = job
    root, proj = materialise(case)
    problems = []
    try:
        cwd, arg = invocation(root, proj, case["inv"])
        tmp = os.path.join(root, "tmp")
        if case.get("tmp") == "otherfs":
            tmp = "/var/tmp/verif-scope-%d-%s" % (os.getpid(), os.path.basename(root))
            os.makedirs(tmp, exist_ok=True)
        watch = [os.path.join(root, "work"), tmp]
        snap0 = bl.snapshot(watch)
        cwd_lock = os.path.join(cwd, "Breadlog.lock")
        cwd_lock_before = os.path.lexists(cwd_lock)
        r1 = bl.run_breadlog(binary, arg, check=True, tmpdir=tmp, roots=(), shim=False, cwd=cwd, timeout=60)
        snap1 = bl.snapshot(watch)
        if snap1 != snap0:
            problems.append(("C04", "--check changed the filesystem: %s" % bl.snapshot_diff(snap0, snap1)[:3]))
        scanned = set()
        for p in r1.per_file_totals():
            ap = os.path.normpath(p if os.path.isabs(p) else os.path.join(cwd, p))
            scanned.add(os.path.relpath(ap, proj))
        expected = set(case["expected"])
        if case["sd"] == "hidden":
            expected = {(".src" + e[3:]) if e.startswith("src/") else e for e in expected}
        if r1.exit_class in ("panic", "timeout", "signal", "killed"):
            problems.append(("C17", "check terminated abnormally: %s" % r1.exit_class))
        if scanned != expected:
            problems.append(("C15", "check scanned %s, in scope are %s" % (sorted(scanned), sorted(expected))))
        r2 = bl.run_breadlog(binary, arg, check=False, tmpdir=tmp, roots=(), shim=False, cwd=cwd, timeout=60)
        snap2 = bl.snapshot(watch)
        changed = set()
        for k in sorted(set(snap1) | set(snap2)):
            if snap1.get(k) != snap2.get(k):
                a, b = snap1.get(k), snap2.get(k)
                if a and b and a[0] == "dir" and b[0] == "dir" and a[:3] == b[:3]:
                    continue        # only the directory's mtime changed (an entry was renamed into it)
                if a and b and a[0] == "file" and b[0] == "file" and a[:6] == b[:6]:
                    continue        # only the link count changed (another name of the inode was replaced)
                changed.add(os.path.relpath(k, proj))
        lock_rel = "Breadlog.lock"
        modified = {c for c in changed if c != lock_rel and not c.startswith("../")}
        elsewhere = {c for c in changed if c.startswith("../")}
        may_modify = set(case.get("modified", case["expected"]))
        if case["sd"] == "hidden":
            may_modify = {(".src" + e[3:]) if e.startswith("src/") else e for e in may_modify}
        if modified != may_modify:
            problems.append(("C15", "edit modified %s, expected %s (in scope are %s)" % (sorted(modified), sorted(may_modify), sorted(expected))))
        if elsewhere:
            problems.append(("C15", "edit changed entries outside the project: %s" % sorted(elsewhere)))
        for e in case["layout"]:
            p = os.path.join(proj, (".src" + e[3:]) if case["sd"] == "hidden" and e.startswith("src/") else e)
            if (e.startswith("src/link") or e == "src/sub/b.rs.tmp") and not os.path.islink(p):
                problems.append(("C15", "symbolic link %s was replaced" % e))
        if expected and case.get("tmp") == "otherfs":
            if r2.exit_class == 0:
                problems.append(("C08", "edit exits 0 although no scratch file could be moved into place"))
        elif expected:
            if r2.exit_class != 0:
                problems.append(("C15", "edit failed (%s) although in-scope files exist: %s" % (r2.exit_class, r2.stdout[-200:])))
            if not os.path.exists(os.path.join(proj, "Breadlog.lock")):
                problems.append(("C15", "no Breadlog.lock next to the configuration file after an inserting edit run"))
        else:
            if r2.exit_class == 0 or r1.exit_class == 0:
                problems.append(("C16", "no in-scope files but exit status check=%s edit=%s" % (r1.exit_class, r2.exit_class)))
        # a file that appears later with an old modification time (moved in, restored from an archive) is in scope too
        if expected and case["exts"] in (["default"], ["rs"], ["rs", "txt"]):
            srcdir = os.path.join(proj, ".src" if case["sd"] == "hidden" else "src")
            late = os.path.join(srcdir, "late.rs")
            with open(late, "w") as fh:
                fh.write(STMT.format(555))
            old = os.stat(late).st_mtime - 7200
            os.utime(late, (old, old))
            r3 = bl.run_breadlog(binary, arg, check=True, tmpdir=tmp, roots=(), shim=False, cwd=cwd, timeout=60)
            scanned3 = set()
            for p3 in r3.per_file_totals():
                ap = os.path.normpath(p3 if os.path.isabs(p3) else os.path.join(cwd, p3))
                scanned3.add(os.path.relpath(ap, proj))
            want = os.path.relpath(late, proj)
            if want not in scanned3 or r3.exit_class != "nonzero":
                problems.append(("C15", "an in-scope file with an old modification time added after the first run was not scanned (%s, exit %s)" % (sorted(scanned3), r3.exit_class)))
        if cwd != proj and os.path.lexists(cwd_lock) and not cwd_lock_before:
            problems.append(("C15", "a Breadlog.lock appeared in the current directory %s" % cwd))
            try:
                os.unlink(cwd_lock)
            except OSError:
                pass
        return problems, {"scanned": sorted(scanned), "modified": sorted(modified), "exit": [r1.exit_class, r2.exit_class]}
    finally:
        rm_scratch(root)
        if case.get("tmp") == "otherfs":
            shutil.rmtree("/var/tmp/verif-scope-%d-%s" % (os.getpid(), os.path.basename(root)), ignore_errors=True)
