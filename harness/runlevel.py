"""Run-level scenario machinery: scenarios (abstract pre-state + rendering skin), fault sweeps driven by
the implementation's own operation sequence, batches of recorded histories judged by Observe.tla.
Histories are executed in a pool of worker processes (each history has a private scratch project)."""
import bisect
import json
import multiprocessing
import os
import signal

import bl
import common
import history
from common import ToolError, log

S = bl.slot
ERR = bl.ERRNO


class Scenario:
    def __init__(self, name, tree, lock=None, structured=False, use_cache=None, base=0, pad=0, crlf=False,
                 unicode_prelude=False, bad=(), extra_files=None, names=None, tmp_on_other_fs=False, maxid=None,
                 config_class="ok", structured_key="explicit", extensions=None, opaque=None, tmp_leftovers=False, pad_mode="spread", tmp_missing=False, env=None, head_style="plain", ci_env=False, stdout_to=None,
                 literal_prelude=False):
        self.name = name
        if opaque is None:
            opaque = sum(len(v) for v in tree.values()) > 300
        self.tree = tree
        self.names = names or sorted(tree)
        self.kw = dict(lock=lock, structured=structured, use_cache=use_cache, base=base, pad=pad, crlf=crlf,
                       unicode_prelude=unicode_prelude, bad=bad, extra_files=extra_files,
                       tmp_on_other_fs=tmp_on_other_fs, maxid=maxid, config_class=config_class,
                       structured_key=structured_key, extensions=extensions, opaque=opaque, tmp_leftovers=tmp_leftovers, pad_mode=pad_mode, tmp_missing=tmp_missing, env=env, head_style=head_style, ci_env=ci_env, stdout_to=stdout_to,
                       literal_prelude=literal_prelude)

    def make(self, binary, label=""):
        return history.History(binary, self.names, self.tree, label=self.name + label, **self.kw)

    def describe(self):
        d = {"name": self.name, "tree": self.tree}
        d.update({k: v for k, v in self.kw.items() if v not in (None, False, 0, (), {})})
        return d


def op_desc(ops, k):
    """Semantic description of the k-th counted operation of a reference run."""
    done_renames = 0
    lock_created = lock_written = False
    for o in ops:
        if o["k"] <= 0:
            continue
        if o["k"] == k:
            base = os.path.basename(o["path"])
            if base == "Breadlog.yaml":
                cls = "cfg"
            elif base == "Breadlog.lock":
                cls = "lock"
            elif base.startswith("breadlog-") and base.endswith(".tmp"):
                cls = "tmp"
            elif base.endswith(".rs"):
                cls = "src"
            else:
                cls = "dir"
            name = o["op"]
            if name == "open" and (o["flags"] & (history.O_CREAT | history.O_TRUNC)):
                name = "create"
            return {"at": "%s.%s" % (cls, name), "renames_before": done_renames, "lock_created_before": lock_created,
                    "lock_written_before": lock_written}
        if o["op"] == "rename" and o["ret"] == 0:
            done_renames += 1
        if os.path.basename(o["path"]) == "Breadlog.lock":
            if o["op"] == "open" and (o["flags"] & history.O_TRUNC) and o["ret"] >= 0:
                lock_created = True
            if o["op"] == "write" and o["ret"] > 0:
                lock_written = True
    return {"at": "none", "renames_before": done_renames, "lock_created_before": lock_created,
            "lock_written_before": lock_written}


# ---------------------------------------------------------------------------------------------
# follow-up step generators (named, so that jobs stay picklable)

def follow_check(h):
    h.run("check")


def follow_c02(h):
    """developer deletes the highest-numbered statement and adds fresh ones, then an ordinary edit run; twice"""
    for rnd in range(2):
        cur = {n: [dict(x) for x in h.tree[n]] for n in h.names if h.present[n]}
        best = None
        for n, slots in cur.items():
            for x in slots:
                if x["ref"] is not None and x["kind"] == "plain" and (best is None or x["ref"] > best[1]):
                    best = (n, x["ref"], x["uid"])
        if best:
            cur[best[0]] = [x for x in cur[best[0]] if x["uid"] != best[2]]
        uid = 100 + 10 * rnd
        for n in sorted(cur):
            uid += 1
            cur[n].append(S(uid))
        h.dev(cur)
        h.run("edit")


def _delete_highest_and_add(h, rnd):
    cur = {n: [dict(x) for x in h.tree[n]] for n in h.names if h.present[n]}
    best = None
    for n, slots in cur.items():
        for x in slots:
            if x["ref"] is not None and x["kind"] == "plain" and (best is None or x["ref"] > best[1]):
                best = (n, x["ref"], x["uid"])
    if best:
        cur[best[0]] = [x for x in cur[best[0]] if x["uid"] != best[2]]
    uid = 200 + 10 * rnd
    for n in sorted(cur):
        uid += 1
        cur[n].append(S(uid))
    h.dev(cur)


DEVFN = {"delete_highest_and_add": _delete_highest_and_add}


def follow_c02_lockread(h):
    """after a fault-free run: the developer deletes the highest-numbered statement and adds others, and the NEXT run cannot
    examine / open / read the lock file (one failure each time)"""
    for rnd, plan in enumerate(("op=stat,path=Breadlog.lock,nth=0:errno=5", "op=open,path=Breadlog.lock,nth=0:errno=5",
                                "op=read,path=Breadlog.lock,nth=0:errno=5", "op=open,path=Breadlog.lock,nth=0:errno=13")):
        _delete_highest_and_add(h, rnd)
        h.run("edit", plan)


def follow_fixpoint(h):
    h.run("check")
    h.run("edit")


def follow_recover(h):
    """after a crashed or failed run: the developer removes code (every file gets shorter), then an ordinary edit run and a
    check: whatever the first run left behind must not leak into the files"""
    cur = {n: [dict(x) for x in h.tree[n]] for n in h.names if h.present[n]}
    for n in sorted(cur):
        keep = max(1, len(cur[n]) // 2) if cur[n] else 0
        cur[n] = cur[n][:keep]
    h.dev(cur)
    h.run("edit")
    h.run("check")


FOLLOW = {"check": follow_check, "c02": follow_c02, "fixpoint": follow_fixpoint, "recover": follow_recover, "c02_lockread": follow_c02_lockread}


# ---------------------------------------------------------------------------------------------
# jobs

def exec_job(job):
    """Execute one history. job: {binary, scen, steps, follow, sig, label}.  Steps are
    (mode, plan) | ('dev', tree) | ('lock', value) | ('model', [model history steps])."""
    scen = job["scen"]
    h = scen.make(job["binary"], job.get("label", ""))
    exits = []
    ops0 = None
    try:
        for st in job["steps"]:
            if st[0] == "dev":
                h.dev(st[1])
            elif st[0] == "devfn":
                DEVFN[st[1]](h, st[2] if len(st) > 2 else 0)
            elif st[0] == "lock":
                h.dev_set_lock(st[1])
            elif st[0] == "sleep":
                import time as _t
                _t.sleep(st[1])
            elif st[0] == "model":
                for ms in st[1]:
                    t = ms["t"]
                    cur = {n: [dict(x) for x in h.tree[n]] for n in h.names if h.present[n]}
                    if t == "run":
                        exits.append(h.run(ms["mode"]).exit_class)
                    elif t == "add":
                        cur[h.names[ms["f"] - 1]].append(S(ms["uid"]))
                        h.dev(cur)
                    elif t == "del":
                        n = h.names[ms["f"] - 1]
                        cur[n] = [x for x in cur[n] if x["uid"] != ms["uid"]]
                        h.dev(cur)
                    elif t == "delfile":
                        cur.pop(h.names[ms["f"] - 1], None)
                        h.dev(cur)
                    elif t == "addfile":
                        cur[h.names[ms["f"] - 1]] = [S(ms["uid"])]
                        h.dev(cur)
            else:
                r = h.run(st[0], plan=st[1] if len(st) > 1 else "")
                exits.append(r.exit_class)
                if ops0 is None:
                    ops0 = r.ops
        if job.get("follow"):
            FOLLOW[job["follow"]](h)
        final = {"tree": {n: h.tree[n] for n in h.names if h.present[n]}, "lock": h.abs_lock}
        res = {"events": h.events, "exits": exits, "final": final}
        if job.get("want_ops"):
            res["ops"] = ops0
        return res
    finally:
        h.close()


def _pool_init():
    signal.signal(signal.SIGINT, signal.SIG_IGN)


def run_jobs(jobs, procs=None):
    procs = procs or max(2, min(common.NCPU - 2, 14))
    if len(jobs) <= 4 or procs <= 1:
        return [exec_job(j) for j in jobs]
    with multiprocessing.get_context("fork").Pool(procs, initializer=_pool_init) as pool:
        return pool.map(exec_job, jobs, chunksize=max(1, min(16, len(jobs) // (procs * 4) or 1)))


class Batch:
    """Recorded histories waiting to be judged."""

    def __init__(self):
        self.items = []      # (events, meta)

    def add_events(self, events, meta):
        self.items.append((events, meta))

    def drift_check(self, verdict, limit=None):
        """Replay a seeded sample of the recorded histories through BreadlogRun's own actions (RunTrace.tla); runs that
        are not behaviours of the verified model are reported as SPEC-DRIFT (never a violation)."""
        import random
        # short writes split one model write into several system calls below the model's unit of content: not replayed
        elig = [(evs, meta) for evs, meta in self.items if history.runtrace_eligible(evs)
                and meta.get("sig", {}).get("fault") != "short" and "short=" not in json.dumps(meta.get("steps", ""))]
        if not elig:
            return
        if limit is None:
            limit = 400 if verdict.tier == "thorough" else 120
        rnd = random.Random(common.seed() + 17)
        groups = {}
        for item in elig:
            groups.setdefault(history.runtrace_group(item[0]), []).append(item)
        for gk in sorted(groups):
            part = groups[gk]
            lim = limit if gk == 0 else max(20, limit // 4)
            if len(part) > lim:
                part = rnd.sample(part, lim)
            accepted, allruns, r = history.runtrace([evs for evs, _ in part], maxid=gk)
            acc = set(accepted)
            rt = verdict.cov.setdefault("runtrace", {"runs": 0, "accepted": 0, "states": 0})
            rt["runs"] += len(allruns)
            rt["accepted"] += len(accepted)
            rt["states"] += r.distinct
            if gk:
                rt["runs_at_top_of_id_range"] = rt.get("runs_at_top_of_id_range", 0) + len(allruns)
            for (hi, li) in allruns:
                if (hi, li) not in acc:
                    evs, meta = part[hi]
                    verdict.drift.append("run ending at event %d of scenario %s steps %s is not a behaviour of BreadlogRun" % (
                        li, meta.get("scenario"), json.dumps(meta.get("steps"), default=str)[:200]))

    def judge(self, verdict, props, signature_fn=None):
        """Run Observe over everything; attribute each reported violation of a property in `props` to its
        history; register violations / known findings with the verdict."""
        if not self.items:
            return []
        offsets = []
        n = 0
        for evs, meta in self.items:
            offsets.append(n)
            n += len(evs)
        if os.environ.get("VERIF_RUNTRACE", "1") != "0":
            self.drift_check(verdict)
        viols, tr, nev = history.judge([evs for evs, _ in self.items], verdict)
        verdict.cov["traces_validated_against_impl"] += len(self.items)
        verdict.cov["trace_events"] = verdict.cov.get("trace_events", 0) + nev
        verdict.cov["observe_states"] = verdict.cov.get("observe_states", 0) + tr.distinct
        out = []
        for prop, name, l, detail in viols:
            hi = bisect.bisect_right(offsets, l - 1) - 1
            evs, meta = self.items[hi]
            local = l - 1 - offsets[hi]
            out.append((prop, name, meta, local, detail))
            if prop not in props:
                oo = verdict.cov.setdefault("other_property_observations", {})
                key = "%s.%s" % (prop, name)
                oo[key] = oo.get(key, 0) + 1
                continue
            sig = {"check": name}
            sig.update(meta.get("sig", {}))
            # which temp-file operations failed in the run that contains the violating event
            j = local
            while j > 0 and evs[j].get("ev") != "start":
                j -= 1
            failed = set()
            for e in evs[j:]:
                if e.get("ev") == "end":
                    break
                if e.get("ev") == "op" and not e.get("ok") and e.get("cls") == "tmp" and e.get("op") in ("create", "write", "rename", "fsync"):
                    failed.add(e["op"])
            sig["rename_failed"] = "rename" in failed
            if signature_fn:
                sig.update(signature_fn(name, meta, evs, local, detail) or {})
            desc = "%s.%s violated in scenario %s at event %d (%s): %s" % (
                prop, name, meta.get("scenario"), local, json.dumps(sig, sort_keys=True), detail[:300])
            verdict.violation(sig, desc, {"scenario": meta.get("scenario_desc"), "steps": meta.get("steps"),
                                          "follow": meta.get("follow"), "signature": sig, "event_index": local,
                                          "events": evs, "detail": detail})
        self.items = []
        return out


SLOW_MS = 2600


def _action(kind):
    if kind.endswith("+slow"):
        # the stop request, and from then on the lock file takes a while to open (a loaded machine, a network file
        # system): the run needs more than two seconds to wind down
        return _action(kind[:-5]) + ";op=open,path=Breadlog.lock,nth=0:sigdelay=%d" % SLOW_MS
    if kind in ("kill_before", "kill_after"):
        return kind
    if kind in ("INT", "TERM"):
        return "signal=%d" % (signal.SIGINT if kind == "INT" else signal.SIGTERM)
    if kind == "short":
        return "short=1"
    return "errno=%d" % ERR[kind]


def sweep(binary, scen, mode, kinds, batch, verdict, follow=None, ks=None, only_ops=None, stride=1, label="",
          pre_steps=()):
    """Fault sweep (DESIGN 3.5): a fault-free recording run yields operations 1..K; then, from a fresh copy of
    the scenario each time, for every k and every kind in `kinds`, the run is repeated with the fault at k.
    `follow` names a follow-up step generator.  kinds: kill_before | kill_after | EIO | ENOSPC | EACCES | EXDEV |
    INT | TERM | short.  pre_steps are executed (fault-free) before the swept run."""
    pre = [tuple(s) for s in pre_steps]
    ref = exec_job({"binary": binary, "scen": scen, "steps": pre + [(mode, "")], "follow": follow, "label": label,
                    "want_ops": not pre})
    ops = ref["ops"] if not pre else _ops_of_last_run(binary, scen, pre, mode, label)
    K = max([o["k"] for o in ops if o["k"] > 0] or [0])
    base_sig = {"mode": mode, "structured": bool(scen.kw["structured"])}
    meta = {"scenario": scen.name, "scenario_desc": scen.describe(), "steps": [list(s) for s in pre] + [[mode, ""]],
            "follow": follow, "sig": dict(base_sig, fault="none")}
    batch.add_events(ref["events"], meta)
    verdict.evaluated(("ref", scen.name, mode, label))
    jobs, metas = [], []
    points = set()
    klist = list(ks) if ks is not None else list(range(1, K + 1, stride))
    for k in klist:
        d = op_desc(ops, k)
        opname = d["at"].split(".")[1]
        if only_ops and d["at"] not in only_ops and opname not in only_ops:
            continue
        for kind in kinds:
            if kind == "EXDEV" and opname != "rename":
                continue
            if kind == "short" and opname != "write":
                continue
            plan = "at=%d:%s" % (k, _action(kind))
            sig = dict(base_sig)
            sig["fault"] = kind if kind in ("kill_before", "kill_after", "INT", "TERM", "short") else "errno"
            if kind.endswith("+slow"):
                sig["fault"], sig["slow"] = kind[:-5], True
            sig["errno"] = kind if kind in ERR else ""
            sig.update(d)
            sig["renames_before"] = min(sig["renames_before"], 1)
            jobs.append({"binary": binary, "scen": scen, "steps": pre + [(mode, plan)], "follow": follow, "label": label})
            metas.append({"scenario": scen.name, "scenario_desc": scen.describe(),
                          "steps": [list(s) for s in pre] + [[mode, plan]], "follow": follow, "sig": sig, "k": k})
            points.add((d["at"], kind, min(d["renames_before"], 2), d["lock_created_before"]))
            verdict.evaluated((scen.name, mode, k, kind, label))
    results = run_jobs(jobs)
    for res, meta in zip(results, metas):
        batch.add_events(res["events"], meta)
        verdict.sample({"scenario": scen.name, "steps": meta["steps"], "op": meta["sig"]["at"], "exits": res["exits"],
                        "ops_in_run": K})
    verdict.cov["semantic_fault_points"] = verdict.cov.get("semantic_fault_points", 0) + len(points)
    return K, len(jobs) + 1


def _ops_of_last_run(binary, scen, pre, mode, label):
    h = scen.make(binary, label)
    try:
        for st in pre:
            if st[0] == "dev":
                h.dev(st[1])
            elif st[0] == "devfn":
                DEVFN[st[1]](h, st[2] if len(st) > 2 else 0)
            elif st[0] == "lock":
                h.dev_set_lock(st[1])
            else:
                h.run(st[0], plan=st[1] if len(st) > 1 else "")
        r = h.run(mode)
        return r.ops
    finally:
        h.close()


def planned_runs(binary, scen, steps_list, batch, verdict, sigbase=None, label="", follow=None):
    """Each element of steps_list is a list of steps executed on a fresh copy of the scenario."""
    jobs, metas = [], []
    for steps in steps_list:
        steps = [tuple(s) for s in steps]
        plans = [s[1] for s in steps if s[0] in ("edit", "check") and len(s) > 1 and s[1]]
        steps = [s for s in steps]
        sig = {"mode": next((s[0] for s in steps if s[0] in ("edit", "check")), "history"),
               "fault": "plan" if plans else "none", "plan": ";".join(plans), "structured": bool(scen.kw["structured"])}
        if sigbase:
            sig.update(sigbase)
        jobs.append({"binary": binary, "scen": scen, "steps": steps, "follow": follow, "label": label})
        metas.append({"scenario": scen.name, "scenario_desc": scen.describe(),
                      "steps": [list(s) if s[0] != "model" else ["model", s[1]] for s in steps], "follow": follow, "sig": sig})
        verdict.evaluated((scen.name, json.dumps(metas[-1]["steps"], sort_keys=True, default=str)[:3000], label))
    results = run_jobs(jobs)
    for res, meta in zip(results, metas):
        batch.add_events(res["events"], meta)
        verdict.sample({"scenario": meta["scenario"], "steps": [s if s[0] not in ("dev", "model") else [s[0], "..."]
                                                                   for s in meta["steps"]], "exits": res["exits"]})
    return results


# ---------------------------------------------------------------------------------------------
# standard scenario families

def small_trees(structured=False, base=0, lock=None, use_cache=None):
    """A few hand-picked shapes: several files, some needing no change, existing references."""
    b = base
    T = []
    T.append(Scenario("two-files", {"f1.rs": [S(11), S(12, ref=3 + b)], "f2.rs": [S(21), S(22)]},
                      lock=lock, structured=structured, base=base, use_cache=use_cache))
    T.append(Scenario("three-files-one-done", {"f1.rs": [S(11, ref=1 + b)], "f2.rs": [S(21), S(22, ref=2 + b), S(23)],
                                                "f3.rs": [S(31)]},
                      lock=lock, structured=structured, base=base, use_cache=use_cache))
    return T


def sized_tree(name, nbytes, structured=False, lock=None, nfiles=2, use_cache=None):
    tree = {}
    uid = 10
    for i in range(nfiles):
        tree["f%d.rs" % (i + 1)] = [S(uid + 1), S(uid + 2, ref=uid + 2), S(uid + 3)]
        uid += 10
    return Scenario(name, tree, lock=lock, structured=structured, pad=nbytes, use_cache=use_cache)
