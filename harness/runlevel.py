"""Run-level scenario machinery: scenarios (abstract pre-state + rendering skin), fault sweeps driven by
the implementation's own operation sequence, batches of recorded histories judged by Observe.tla."""
import json
import os
import random
import signal

import bl
import history
from common import ToolError, log

S = bl.slot
ERR = bl.ERRNO


class Scenario:
    def __init__(self, name, tree, lock=None, structured=False, use_cache=None, base=0, pad=0, crlf=False,
                 unicode_prelude=False, bad=(), extra_files=None, names=None, tmp_on_other_fs=False):
        self.name = name
        self.tree = tree
        self.names = names or sorted(tree)
        self.kw = dict(lock=lock, structured=structured, use_cache=use_cache, base=base, pad=pad, crlf=crlf,
                       unicode_prelude=unicode_prelude, bad=bad, extra_files=extra_files,
                       tmp_on_other_fs=tmp_on_other_fs)

    def make(self, binary, label=""):
        return history.History(binary, self.names, self.tree, label=self.name + label, **self.kw)

    def describe(self):
        d = {"name": self.name, "tree": self.tree}
        d.update({k: v for k, v in self.kw.items() if v not in (None, False, 0, (), {})})
        return d


def op_desc(ops, k):
    """Semantic description of the k-th counted operation of a reference run."""
    done_renames = 0
    lock_created = lock_written = False
    first_src = None
    for o in ops:
        if o["k"] <= 0:
            continue
        if o["k"] == k:
            path = o["path"]
            base = os.path.basename(path)
            if base == "Breadlog.yaml":
                cls = "cfg"
            elif base == "Breadlog.lock":
                cls = "lock"
            elif base.startswith("breadlog-") and base.endswith(".tmp"):
                cls = "tmp"
            elif base.endswith(".rs"):
                cls = "src"
            else:
                cls = "dir"
            name = o["op"]
            if name == "open" and (o["flags"] & (history.O_CREAT | history.O_TRUNC)):
                name = "create"
            return {"at": "%s.%s" % (cls, name), "renames_before": done_renames, "lock_created_before": lock_created,
                    "lock_written_before": lock_written}
        if o["op"] == "rename" and o["ret"] == 0:
            done_renames += 1
        if os.path.basename(o["path"]) == "Breadlog.lock":
            if o["op"] == "open" and (o["flags"] & history.O_TRUNC) and o["ret"] >= 0:
                lock_created = True
            if o["op"] == "write" and o["ret"] > 0:
                lock_written = True
    return {"at": "none", "renames_before": done_renames, "lock_created_before": lock_created,
            "lock_written_before": lock_written}


class Batch:
    """Recorded histories waiting to be judged."""

    def __init__(self):
        self.items = []      # (events, meta)

    def add(self, hist, meta):
        self.items.append((hist.events, meta))

    def judge(self, verdict, props, signature_fn=None):
        """Run Observe over everything; attribute each reported violation of a property in `props` to its
        history; register violations / known findings with the verdict."""
        if not self.items:
            return []
        offsets = []
        n = 0
        for evs, meta in self.items:
            offsets.append(n)
            n += len(evs)
        viols, tr, nev = history.judge([evs for evs, _ in self.items], verdict)
        verdict.cov["traces_validated_against_impl"] += len(self.items)
        verdict.cov.setdefault("trace_events", 0)
        verdict.cov["trace_events"] += nev
        verdict.cov.setdefault("observe_states", 0)
        verdict.cov["observe_states"] += tr.distinct
        import bisect
        out = []
        seen = set()
        for prop, name, l, detail in viols:
            hi = bisect.bisect_right(offsets, l - 1) - 1
            evs, meta = self.items[hi]
            local = l - 1 - offsets[hi]
            out.append((prop, name, meta, local, detail))
            if prop not in props:
                verdict.cov.setdefault("other_property_observations", {})
                key = "%s.%s" % (prop, name)
                verdict.cov["other_property_observations"][key] = verdict.cov["other_property_observations"].get(key, 0) + 1
                continue
            sig = {"check": name}
            sig.update(meta.get("sig", {}))
            if signature_fn:
                sig.update(signature_fn(name, meta, evs, local, detail) or {})
            key = json.dumps(sig, sort_keys=True)
            if key in seen and len(seen) > 40:
                continue
            seen.add(key)
            desc = "%s.%s violated in scenario %s at event %d (%s): %s" % (
                prop, name, meta.get("scenario"), local, json.dumps(sig, sort_keys=True), detail[:300])
            verdict.violation(sig, desc, {"scenario": meta.get("scenario_desc"), "steps": meta.get("steps"),
                                          "signature": sig, "event_index": local, "events": evs, "detail": detail})
        self.items = []
        return out


def sweep(binary, scen, mode, kinds, batch, verdict, follow=None, ks=None, ref_plan="", only_ops=None, stride=1,
          label=""):
    """Fault sweep (DESIGN 3.5): a fault-free recording run yields operations 1..K; then, from a fresh copy of
    the scenario each time, for every k (optionally strided) and every kind in `kinds`, the run is repeated
    with the fault at k.  `follow(hist)` may append further steps (developer edits, runs) to each history.
    kinds: 'kill_before' | 'kill_after' | 'EIO' | 'ENOSPC' | 'EACCES' | 'EXDEV' | 'INT' | 'TERM' | 'short'."""
    h = scen.make(binary, label)
    r0 = h.run(mode, plan=ref_plan)
    ops = r0.counted_ops()
    K = max([o["k"] for o in ops] or [0])
    if follow:
        follow(h)
    meta = {"scenario": scen.name, "scenario_desc": scen.describe(), "steps": [[mode, ref_plan]],
            "sig": {"mode": mode, "fault": "none", "structured": bool(scen.kw["structured"])}}
    batch.add(h, meta)
    verdict.evaluated(("ref", scen.name, mode))
    h.close()
    points = set()
    nruns = 1
    klist = list(ks) if ks is not None else list(range(1, K + 1, stride))
    for k in klist:
        d = op_desc(r0.ops, k)
        opname = d["at"].split(".")[1]
        if only_ops and d["at"] not in only_ops and opname not in only_ops:
            continue
        for kind in kinds:
            if kind == "EXDEV" and opname != "rename":
                continue
            if kind == "short" and opname != "write":
                continue
            if kind in ("kill_before", "kill_after"):
                action = kind
            elif kind in ("INT", "TERM"):
                action = "signal=%d" % (signal.SIGINT if kind == "INT" else signal.SIGTERM)
            elif kind == "short":
                action = "short=1"
            else:
                action = "errno=%d" % ERR[kind]
            plan = "at=%d:%s" % (k, action)
            h = scen.make(binary, label)
            r = h.run(mode, plan=plan)
            if follow:
                follow(h)
            sig = {"mode": mode, "fault": kind if kind in ("kill_before", "kill_after", "INT", "TERM", "short") else "errno",
                   "errno": kind if kind in ERR else "", "structured": bool(scen.kw["structured"])}
            sig.update(d)
            sig["renames_before"] = min(sig["renames_before"], 1)
            meta = {"scenario": scen.name, "scenario_desc": scen.describe(), "steps": [[mode, plan]], "sig": sig, "k": k}
            batch.add(h, meta)
            points.add((d["at"], kind, min(d["renames_before"], 2), d["lock_created_before"]))
            verdict.evaluated((scen.name, mode, k, kind))
            verdict.sample({"scenario": scen.name, "mode": mode, "plan": plan, "op": d["at"],
                            "exit": r.exit_class, "ops_in_run": K})
            h.close()
            nruns += 1
    verdict.cov.setdefault("semantic_fault_points", 0)
    verdict.cov["semantic_fault_points"] += len(points)
    return K, nruns


def planned_runs(binary, scen, steps_list, batch, verdict, sigbase=None, label=""):
    """Each element of steps_list is a list of steps [(mode, plan) | ("dev", newtree) | ("lock", value)]
    executed on a fresh copy of the scenario."""
    n = 0
    for steps in steps_list:
        h = scen.make(binary, label)
        rr = []
        for st in steps:
            if st[0] == "dev":
                h.dev(st[1])
            elif st[0] == "lock":
                h.dev_set_lock(st[1])
            else:
                r = h.run(st[0], plan=st[1])
                rr.append(r.exit_class)
        sig = {"mode": steps[0][0], "fault": "plan" if any(len(s) > 1 and s[0] in ("edit", "check") and s[1] for s in steps) else "none",
               "plan": ";".join(s[1] for s in steps if s[0] in ("edit", "check") and s[1]),
               "structured": bool(scen.kw["structured"])}
        if sigbase:
            sig.update(sigbase)
        meta = {"scenario": scen.name, "scenario_desc": scen.describe(),
                "steps": [list(s) if s[0] in ("edit", "check", "lock") else ["dev", s[1]] for s in steps], "sig": sig}
        batch.add(h, meta)
        verdict.evaluated((scen.name, json.dumps(meta["steps"], sort_keys=True, default=str)))
        verdict.sample({"scenario": scen.name, "steps": [list(s) if s[0] != "dev" else ["dev", "..."] for s in steps],
                        "exits": rr})
        h.close()
        n += 1
    return n


# ---------------------------------------------------------------------------------------------
# standard scenario families

def small_trees(structured=False, base=0, lock=None, use_cache=None):
    """A few hand-picked shapes: several files, some needing no change, existing references."""
    b = base
    T = []
    T.append(Scenario("two-files", {"f1.rs": [S(11), S(12, ref=3 + b)], "f2.rs": [S(21), S(22)]},
                      lock=lock, structured=structured, base=base, use_cache=use_cache))
    T.append(Scenario("three-files-one-done", {"f1.rs": [S(11, ref=1 + b)], "f2.rs": [S(21), S(22, ref=2 + b), S(23)],
                                                "f3.rs": [S(31)]},
                      lock=lock, structured=structured, base=base, use_cache=use_cache))
    return T


def sized_tree(name, nbytes, structured=False, lock=None, nfiles=2, use_cache=None):
    tree = {}
    uid = 10
    for i in range(nfiles):
        tree["f%d.rs" % (i + 1)] = [S(uid + 1), S(uid + 2, ref=uid + 2), S(uid + 3)]
        uid += 10
    return Scenario(name, tree, lock=lock, structured=structured, pad=nbytes, use_cache=use_cache)
