"""Real-code corpora shipped with the repository (tests/rust_data/rocket, tests/rust_data/fib-rs, Breadlog's own
sources): run check, edit, check, edit on a scratch copy and report facts for the universal monitors."""
import os
import shutil

import bl
import monitors

MACROS = (("log", "info"), ("log", "warn"), ("log", "error"), ("log", "debug"), ("log", "trace"))
CORPORA = {"rocket": "tests/rust_data/rocket", "fib-rs": "tests/rust_data/fib-rs", "breadlog-src": "src"}


def run_corpus(job):
    """job = (binary, repo, name, structured). Returns dict of facts and an opaque Observe history."""
    binary, repo, name, structured = job
    P = bl.Project(structured=structured, macros=MACROS, tag="co")
    try:
        src = os.path.join(repo, CORPORA[name])
        shutil.rmtree(P.src)
        shutil.copytree(src, P.src, symlinks=True, ignore=shutil.ignore_patterns("target", "*.lock", "breadlog*.yaml",
                                                                                 "breadlog-test-expected*.yaml"))
        before = P.read_sources()
        rs = {k: v for k, v in before.items() if k.endswith(".rs")}
        facts = {"corpus": name, "structured": structured, "files": len(rs), "problems": [], "abnormal": []}
        events = [{"ev": "init", "files": [], "lock": -2, "maxid": 2000000000, "label": "corpus-%s" % name}]
        state = dict(before)
        last_reports = None
        lock_abs = -2
        seq = [("check", True), ("edit", False), ("check", True), ("edit", False)]
        for step, (mode, chk) in enumerate(seq):
            snap0 = bl.snapshot([P.proj, P.tmp])
            r = bl.run_breadlog(binary, P.config_path, check=chk, tmpdir=P.tmp, roots=(), shim=False, timeout=600)
            snap1 = bl.snapshot([P.proj, P.tmp])
            after = P.read_sources()
            if r.exit_class in ("panic", "timeout", "signal", "killed"):
                facts["abnormal"].append((mode, r.exit_class, r.stderr[-300:]))
            totals = {os.path.relpath(k, P.src): v for k, v in r.per_file_totals().items()}
            cls, pure = [], []
            pos_match = True
            ins_all = []
            for fn in sorted(rs):
                b, a = state.get(fn), after.get(fn)
                if a is None:
                    cls.append("other")
                    pure.append(False)
                    continue
                if a == b:
                    cls.append("orig")
                    pure.append(True)
                    continue
                ok, toks = monitors.pure_insertion(b, a)
                pure.append(bool(ok))
                if not ok:
                    facts["problems"].append(("C03", "%s: edit of %s is not a pure insertion" % (name, fn)))
                    cls.append("other")
                    continue
                cls.append("new")
                for (ob, oa, tok, ident) in toks:
                    ln, col = monitors.line_col(None, ob, data=b)
                    ins_all.append((os.path.join(P.src, fn), ln, col))
            if mode == "check":
                last_reports = sorted(r.missing_reports())
            else:
                if last_reports is not None and r.exit_class == 0:
                    pos_match = sorted(ins_all) == last_reports
                    if not pos_match:
                        missing = sorted(set(last_reports) - set(ins_all))[:5]
                        extra = sorted(set(ins_all) - set(last_reports))[:5]
                        facts["problems"].append(("C05", "%s: reported but not inserted %s; inserted but not reported %s" % (name, missing, extra)))
                last_reports = None
            others0 = {k: v for k, v in snap0.items() if not k.endswith(".rs") and k != P.lock_path and not k.startswith(P.tmp) and v[0] != "dir"}
            others1 = {k: v for k, v in snap1.items() if not k.endswith(".rs") and k != P.lock_path and not k.startswith(P.tmp) and v[0] != "dir"}
            lk = P.get_lock()
            lock_abs = -2 if lk is None else (-1 if lk == "corrupt" else lk)
            cnt = r.inserted_count() if mode == "edit" else None
            tot = r.total_missing() if mode == "check" else None
            exitc = {0: 0, "nonzero": 2, "signal": 130, "killed": 137, "panic": 101, "timeout": 124}[r.exit_class]
            events.append({"ev": "start", "mode": mode, "cache": True, "any_readable": False, "plan": "", "must_fail": False})
            events.append({"ev": "end", "exit": exitc, "files": [], "lock": lock_abs, "cls": cls, "pure": pure,
                           "tmpleft": len(P.tmp_entries()), "snapeq": snap0 == snap1, "others_same": others0 == others1,
                           "reported": [], "total": tot if tot is not None else -1, "count": cnt if cnt is not None else -1,
                           "rc": r.rc if r.rc is not None else -1, "pos_match": pos_match, "inserted_ids": []})
            facts.setdefault("steps", []).append({"mode": mode, "exit": r.exit_class, "total": tot, "count": cnt,
                                                  "changed_files": sum(1 for c in cls if c == "new")})
            state = after
        facts["events"] = events
        return facts
    finally:
        P.close()
