------------------------------- MODULE MCRun -------------------------------
(* Model-checking instance helpers for BreadlogRun (TLC configuration files cannot spell negative
   numbers, and several configurations share these sets). *)
EXTENDS BreadlogRun

LocksSmall == {LAbsent, LCorrupt, 1, 2, MaxId}
LocksAll   == {LAbsent, LCorrupt} \cup 0..MaxId
LocksNone  == {LAbsent}
LocksAbsentOrCorrupt == {LAbsent, LCorrupt}
RefsBoundary == {0, 1, MaxId - 1, MaxId}
RefsLow == {1, 2}

(* state constraint used by history configurations: bounds the size of the ghost relation *)
SmallHistory == Cardinality(g.written) <= 6
=============================================================================
