------------------------------- MODULE MCRun -------------------------------
(* Model-checking instance helpers for BreadlogRun (TLC configuration files cannot spell negative
   numbers, and several configurations share these sets). *)
EXTENDS BreadlogRun, Json

LocksSmall == {LAbsent, LCorrupt, 1, 2, MaxId}
LocksAll   == {LAbsent, LCorrupt} \cup 0..MaxId
LocksNone  == {LAbsent}
LocksAbsentOrCorrupt == {LAbsent, LCorrupt}
RefsBoundary == {0, 1, MaxId - 1, MaxId}
RefsLow == {1, 2}
RefsTwo == {1, MaxId}
LocksAbsentOr3 == {LAbsent, 3}

(* every pre-state (initial state) of a configuration, printed once: the replay input of C01/C16 *)
DumpInit == (p.pc = "idle" /\ g.runs = 0) =>
               PrintT("INIT|" \o ToJson([tree |-> tree, lock |-> lock, present |-> present, bad |-> bad]))

(* replay input: printed once per finished behaviour during simulation.  The final abstract state the model
   predicts is included so that the replay can compare (set of IDs per run is order-dependent; the lock and
   the multiset of references are not). *)
DumpHist == (RecordHist /\ p.pc = "idle" /\ g.runs = MaxRuns /\ g.exit # XNone) =>
               PrintT("HIST|" \o ToJson([hist |-> g.hist, lock |-> lock, tree |-> tree, exit |-> g.exit]))

(* state constraint used by history configurations: bounds the size of the ghost relation *)
SmallHistory == Cardinality(g.written) <= 6
=============================================================================
