-------------------------------- MODULE Scope --------------------------------
(***************************************************************************)
(* C15: which files are in scope, and where paths are resolved.            *)
(*                                                                         *)
(* A layout is a set of ENTRIES of a project directory.  An entry has       *)
(*   kind    "file" | "dir" | "symfile" (symbolic link to a file)          *)
(*           | "symdir" (symbolic link to a directory)                     *)
(*           | "fifo" | "socket" (not regular files either)                *)
(*   ext     the extension of its name as Rust's Path::extension sees it:  *)
(*           "rs", "RS", "rsx", "bak" (x.rs.bak), "tmp" (x.rs.tmp), "rs~",   *)
(*           "txt", "" (none; also a hidden file named ".rs")              *)
(*   inside  TRUE iff the entry lies below the configured source directory *)
(*           by its real path (not through a symbolic link)                *)
(*   depth   nesting below the source directory                            *)
(* InScope(e) is the property's definition.  The configuration part:       *)
(* a relative source_dir is resolved against the directory of the          *)
(* configuration file, never the current directory; the lock file lives    *)
(* next to the configuration file.                                         *)
(***************************************************************************)
EXTENDS Integers, Sequences, FiniteSets, TLC, Json

CONSTANTS Universe,        \* set of entry records [id, kind, ext, inside, depth]
          MaxEntries,      \* layouts are subsets of Universe with at most this many optional entries
          ExtLists,        \* set of extension lists; <<"default">> stands for an omitted key
          SourceDirs,      \* spelling of source_dir: "rel" (src), "dotrel" (./src), "abs", "updown" (../<project>/src),
                           \* "hidden" (the source directory is called .src)
          Invocations,     \* <<cwd, spelling>> with cwd in {"cfgdir","parent","root"}, spelling in {"bare","rel","abs"}
          TmpKinds         \* where TMPDIR is: "same" file system as the sources, or "otherfs" (every rename fails: an edit
                           \* run then changes nothing at all, inside or outside the source directory)

EffectiveExts(x) == IF x = <<"default">> THEN {"rs"} ELSE {x[i] : i \in 1..Len(x)}

InScope(e, exts) == e.kind = "file" /\ e.inside /\ e.ext \in exts

(* where things are, as functions of the invocation; "cfgdir" is the directory that holds Breadlog.yaml *)
ResolvedSourceDir(sd) == "cfgdir/src"          \* for every spelling of source_dir and every current directory
LockLocation == "cfgdir/Breadlog.lock"         \* never the current directory

(* spelling "linkcfg": the path given with --config is a symbolic link to a file in another directory; the configuration
   directory is still the directory of the path that was given *)
ValidInvocation(inv) == inv[2] = "bare" => inv[1] = "cfgdir"

VARIABLES layout, exts, sd, inv, tmp
vars == <<layout, exts, sd, inv, tmp>>

Init == /\ layout \in {L \in SUBSET Universe : Cardinality(L) <= MaxEntries}
        /\ exts \in ExtLists
        /\ sd \in SourceDirs
        /\ inv \in {i \in Invocations : ValidInvocation(i)}
        /\ tmp \in TmpKinds
Next == UNCHANGED vars
Spec == Init /\ [][Next]_vars

Expected == {e.id : e \in {x \in layout : InScope(x, EffectiveExts(exts))}}
(* what an edit run may modify: exactly the in-scope files, and nothing when the scratch files cannot be moved into place *)
ExpectedModified == IF tmp = "otherfs" THEN {} ELSE Expected

(* consistency of the definition with the prose *)
NeverLinksOrDirs == \A e \in layout : e.kind # "file" => e.id \notin Expected
NeverOutside == \A e \in layout : ~e.inside => e.id \notin Expected
CaseSensitive == \A e \in layout : (e.ext = "RS" /\ "RS" \notin EffectiveExts(exts)) => e.id \notin Expected
ExactExtension == \A e \in layout : (e.ext \in {"rsx", "bak", "tmp", "rs~", ""} /\ e.ext \notin EffectiveExts(exts)) => e.id \notin Expected

Dump == PrintT("SCOPE|" \o ToJson([layout |-> {e.id : e \in layout}, exts |-> exts, sd |-> sd, inv |-> inv, tmp |-> tmp,
                                     expected |-> Expected, modified |-> ExpectedModified, lock |-> LockLocation]))
=============================================================================
