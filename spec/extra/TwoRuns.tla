------------------------------- MODULE TwoRuns -------------------------------
(***************************************************************************)
(* Beyond the listed properties: TWO Breadlog edit runs on the same tree   *)
(* at the same time (two terminals, an editor hook and a CI job, ...).     *)
(* Nothing in the implementation serialises them: both read the same lock  *)
(* value (or scan the same maximum) and hand out the same IDs.             *)
(*                                                                         *)
(* Each process: ReadNext (lock or scan) -> for each file that lacks a      *)
(* reference: ReadFile, Replace (rename the rewritten copy over it) ->      *)
(* WriteLock.  Files hold at most one statement: ref[f] = 0 (missing) or    *)
(* the ID it carries.                                                       *)
(*                                                                         *)
(* With Discipline = "flock" (TwoRunsLocked.cfg) all three invariants hold:  *)
(* serialising whole runs on the lock file is sufficient.                  *)
(*                                                                         *)
(* GlobalUnique is EXPECTED TO BE REFUTED by TLC (a documented hazard, not *)
(* one of C01-C18, which quantify over single runs and sequential          *)
(* histories); LostUpdate shows the second symptom: a reference written by *)
(* one run is overwritten by the other.  The counterexample is replayed on *)
(* the real binary by harness/extra_two_runs.py.                           *)
(***************************************************************************)
EXTENDS Integers, FiniteSets, Sequences, TLC

CONSTANTS Procs, Files, StartLock,
          Discipline   \* "none": as implemented;  "flock": a run holds an advisory lock on Breadlog.lock from reading the
                       \* next ID until it has written the new one (what would restore the invariants)

VARIABLES ref,      \* [Files -> Nat] 0 = statement lacks a reference
          lock,     \* recorded next ID
          pc,       \* [Procs -> {"start","work","lockwrite","done"}]
          counter,  \* [Procs -> Nat]
          todo,     \* [Procs -> SUBSET Files] files not yet visited
          seen,     \* [Procs -> [Files -> Nat]] content read, waiting to be replaced (0 = nothing read / needs ref)
          holding,  \* [Procs -> Files \cup {"none"}] file read and being rewritten
          wrote     \* ghost: set of <<proc, file, id>>

vars == <<ref, lock, pc, counter, todo, seen, holding, wrote>>

Init == /\ ref = [f \in Files |-> 0]
        /\ lock = StartLock
        /\ pc = [p \in Procs |-> "start"]
        /\ counter = [p \in Procs |-> 0]
        /\ todo = [p \in Procs |-> Files]
        /\ seen = [p \in Procs |-> [f \in Files |-> 0]]
        /\ holding = [p \in Procs |-> "none"]
        /\ wrote = {}

Busy(q) == pc[q] \in {"work", "lockwrite"}
ReadNext(p) == /\ pc[p] = "start"
               /\ Discipline = "flock" => \A q \in Procs \ {p} : ~Busy(q)
               /\ counter' = [counter EXCEPT ![p] = lock]
               /\ pc' = [pc EXCEPT ![p] = "work"]
               /\ UNCHANGED <<ref, lock, todo, seen, holding, wrote>>

ReadFile(p, f) == /\ pc[p] = "work" /\ holding[p] = "none" /\ f \in todo[p]
                  /\ todo' = [todo EXCEPT ![p] = @ \ {f}]
                  /\ IF ref[f] = 0
                       THEN /\ holding' = [holding EXCEPT ![p] = f]
                            /\ UNCHANGED <<ref, lock, pc, counter, seen, wrote>>
                       ELSE UNCHANGED <<ref, lock, pc, counter, seen, holding, wrote>>

Replace(p) == /\ pc[p] = "work" /\ holding[p] # "none"
              /\ LET f == holding[p] IN
                 /\ ref' = [ref EXCEPT ![f] = counter[p]]
                 /\ wrote' = wrote \cup {<<p, f, counter[p]>>}
              /\ counter' = [counter EXCEPT ![p] = @ + 1]
              /\ holding' = [holding EXCEPT ![p] = "none"]
              /\ UNCHANGED <<lock, pc, todo, seen>>

Finish(p) == /\ pc[p] = "work" /\ holding[p] = "none" /\ todo[p] = {}
             /\ pc' = [pc EXCEPT ![p] = "lockwrite"]
             /\ UNCHANGED <<ref, lock, counter, todo, seen, holding, wrote>>

WriteLock(p) == /\ pc[p] = "lockwrite"
                /\ lock' = counter[p]
                /\ pc' = [pc EXCEPT ![p] = "done"]
                /\ UNCHANGED <<ref, counter, todo, seen, holding, wrote>>

Next == \E p \in Procs : ReadNext(p) \/ Replace(p) \/ Finish(p) \/ WriteLock(p) \/ \E f \in Files : ReadFile(p, f)
Spec == Init /\ [][Next]_vars

AllDone == \A p \in Procs : pc[p] = "done"
(* every ID on disk is carried by one statement only *)
GlobalUnique == \A f1, f2 \in Files : (f1 # f2 /\ ref[f1] # 0) => ref[f1] # ref[f2]
(* no reference that was written is replaced by a different one *)
NoLostUpdate == \A w \in wrote : ref[w[2]] = w[3]
(* the lock ends above everything written *)
LockCovers == AllDone => \A w \in wrote : lock > w[3]
=============================================================================
