\* EXPECTED to be refuted: two concurrent runs hand out the same IDs
CONSTANTS Procs = {"A", "B"}  Files = {"f1", "f2"}  StartLock = 5  Discipline = "none"
SPECIFICATION Spec
INVARIANT GlobalUnique
CHECK_DEADLOCK FALSE
