\* with an advisory lock held for the whole run the hazard disappears: all invariants hold
CONSTANTS Procs = {"A", "B"}  Files = {"f1", "f2"}  StartLock = 5  Discipline = "flock"
SPECIFICATION Spec
INVARIANT GlobalUnique NoLostUpdate LockCovers
CHECK_DEADLOCK FALSE
