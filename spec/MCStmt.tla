------------------------------- MODULE MCStmt -------------------------------
(* Families of the statement feature space used by the configurations in intended/Stmt*.cfg. *)
EXTENDS LogStmt

HeadsReal == {"bare", "qualified"}
HeadsAll == {"bare", "qualified", "unconfigured", "prefix", "suffix", "othermod", "modplus1", "modminus1", "unicodeprefix", "unicodemod", "submod", "shortmod", "upper", "crateprefixed", "noliteral", "noargs",
             "linecomment", "blockcomment", "doccomment", "instring", "instringopen", "rawstring", "nestedcomment", "nestedcomment3", "nolit_outer", "afterescchar", "pathtail_ws", "pathtail_nl", "pathtail_bare", "metavar"}
TargetsAll == {"none", "plain", "comma", "escquote"}
TargetsTwo == {"none", "plain"}
TargetsCompile == TargetsAll \cup ExprTargets
KvPlain == {"int", "id", "str", "strsemi", "short", "dbg", "debug", "disp", "display", "shortdbg"}
KvFew == {"int", "strsemi", "short", "dbg"}
KvParseOnly == {"err", "sval", "serde"}
KvRef == {"ref=7", "ref=strkey", "ref=strkeycmt", "ref=0", "ref=max", "ref=07", "ref=x", "ref:?=x", "ref=over", "ref=str", "ref=neg", "ref=hex", "ref=suffixed"}
KvRefFew == {"ref=7", "ref=x", "ref=over"}
MsgAll == {"plain", "leadspace", "endbackslash", "onlybackslash", "slashes", "blockcm", "placeholders", "escquote", "unicode", "reflater", "empty",
           "validref", "validref0", "validrefmax", "bracketnoref", "unicodefirst"}
MsgFew == {"plain", "validref", "leadspace", "unicodefirst"}
LayoutsAll == {"tight", "space", "newline", "crlf", "blockcomment", "linecomment", "tabs", "formfeed", "unicodews"}
ContextsAll == {"linestart", "indent", "brace", "arrow", "return", "letunderscore", "afterstring", "aftermultibyte", "break", "tabindent", "afterstmt", "afterurl",
                "afterrawstring", "afterrawbackslash", "afterbytechar", "afterlifetime", "afterhexchar", "afterunicodechar"}
DirsAll == {"none", "ignore", "nokvp"}
BothModes == {"structured", "unstructured"}
=============================================================================
