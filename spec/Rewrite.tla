------------------------------- MODULE Rewrite -------------------------------
(***************************************************************************)
(* C03: the copy-through rewriter of src/codegen/generate.rs:392-500.       *)
(*                                                                         *)
(* The input is a sequence of UNITS (characters) of byte width 1..4; the   *)
(* insertion points are an ascending set of unit boundaries 0..n (the      *)
(* positions the parser reported: always character boundaries).  The       *)
(* rewriter keeps a byte cursor, copies the bytes between the cursor and   *)
(* the next insertion point, writes a token, and finally copies the tail.  *)
(* Writes go through a cache that drains to the file in chunks.            *)
(*                                                                         *)
(* Output items are <<"u", i>> (input unit i) or <<"t", k>> (k-th token).  *)
(* Safety: erasing the tokens from the output gives back the input, units  *)
(* appear exactly once and in order, tokens sit exactly at the insertion   *)
(* points, and what has reached the file is always a prefix of the final   *)
(* content.                                                                *)
(***************************************************************************)
EXTENDS Integers, Sequences, FiniteSets, TLC, Json

CONSTANTS MaxUnits, Widths, CacheCaps

VARIABLES input,   \* sequence of widths
          points,  \* set of unit boundaries (0..Len(input)) where a token goes
          cap,     \* cache capacity in items
          pc, cursorUnits, cursorBytes, k, cache, file

vars == <<input, points, cap, pc, cursorUnits, cursorBytes, k, cache, file>>

RECURSIVE SumTo(_, _)
SumTo(seq, n) == IF n = 0 THEN 0 ELSE seq[n] + SumTo(seq, n - 1)
ByteOffset(b) == SumTo(input, b)                \* byte offset of unit boundary b

Init == /\ input \in UNION {[1..n -> Widths] : n \in 0..MaxUnits}
        /\ points \in SUBSET (0..Len(input))
        /\ cap \in CacheCaps
        /\ pc = "loop" /\ cursorUnits = 0 /\ cursorBytes = 0 /\ k = 0 /\ cache = <<>> /\ file = <<>>

NextPoint == CHOOSE b \in points : Cardinality({c \in points : c < b}) = k

Emit(items) == cache' = cache \o items

(* write_all of input bytes [cursor, insertion point) followed by the token *)
CopyAndInsert ==
  /\ pc = "loop" /\ k < Cardinality(points)
  /\ LET b == NextPoint IN
     /\ ByteOffset(b) >= cursorBytes                       \* generate.rs:406 "insert position before cursor" guard
     /\ Emit([i \in 1..(b - cursorUnits) |-> <<"u", cursorUnits + i>>] \o <<<<"t", k + 1>>>>)
     /\ cursorUnits' = b
     /\ cursorBytes' = cursorBytes + (ByteOffset(b) - cursorBytes)
     /\ k' = k + 1
  /\ UNCHANGED <<input, points, cap, pc, file>>

CopyTail ==
  /\ pc = "loop" /\ k = Cardinality(points)
  /\ Emit([i \in 1..(Len(input) - cursorUnits) |-> <<"u", cursorUnits + i>>])
  /\ cursorUnits' = Len(input) /\ cursorBytes' = ByteOffset(Len(input))
  /\ pc' = "flush"
  /\ UNCHANGED <<input, points, cap, k, file>>

(* the cache drains when it holds at least `cap` items (any time it is non-empty when cap = 0) *)
Drain ==
  /\ Len(cache) > 0 /\ (Len(cache) >= cap \/ pc = "flush")
  /\ file' = file \o cache /\ cache' = <<>>
  /\ pc' = IF pc = "flush" THEN "done" ELSE pc
  /\ UNCHANGED <<input, points, cap, cursorUnits, cursorBytes, k>>

FlushEmpty == pc = "flush" /\ cache = <<>> /\ pc' = "done"
              /\ UNCHANGED <<input, points, cap, cursorUnits, cursorBytes, k, cache, file>>

Next == CopyAndInsert \/ CopyTail \/ Drain \/ FlushEmpty
Spec == Init /\ [][Next]_vars

-----------------------------------------------------------------------------
Out == file \o cache
Erase(seq) == SelectSeq(seq, LAMBDA it : it[1] = "u")
(* erasing the tokens gives a prefix of the input (all of it when done), every unit once and in order *)
EraseIsPrefix == LET e == Erase(Out) IN \A i \in 1..Len(e) : e[i] = <<"u", i>>
DoneComplete == pc = "done" => (Len(Erase(file)) = Len(input) /\ cache = <<>>)
(* token j sits exactly at the j-th insertion point: the number of units before it equals that boundary *)
TokensAtPoints ==
  \A p \in 1..Len(Out) : Out[p][1] = "t" =>
     LET j == Out[p][2]
         unitsBefore == Cardinality({q \in 1..(p - 1) : Out[q][1] = "u"})
     IN /\ j = Cardinality({q \in 1..p : Out[q][1] = "t"})
        /\ unitsBefore = (CHOOSE b \in points : Cardinality({c \in points : c < b}) = j - 1)
DoneAllTokens == pc = "done" => Cardinality({p \in 1..Len(file) : file[p][1] = "t"}) = Cardinality(points)
(* the byte cursor never splits a unit *)
CursorOnBoundary == cursorBytes = ByteOffset(cursorUnits)

(* replay input: one line per initial case *)
Dump == (pc = "loop" /\ k = 0 /\ cache = <<>> /\ file = <<>> /\ cap = 0) =>
           PrintT("REW|" \o ToJson([input |-> input, points |-> points]))
=============================================================================
