-------------------------------- MODULE Env --------------------------------
(***************************************************************************)
(* The ENVIRONMENT of an invocation, as far as Breadlog's behaviour can    *)
(* depend on it, and what it determines.                                   *)
(*                                                                         *)
(* BreadlogRun.tla lets every file-system operation fail nondeterministi-  *)
(* cally.  An environment makes some of those failures DETERMINISTIC       *)
(* without any injected fault: a TMPDIR on another file system makes every *)
(* RenameTmp fail, a TMPDIR that does not exist makes every CreateTmp      *)
(* fail.  And it fixes the names through which the configuration, the      *)
(* lock and the source directory are reached: the lock lives NEXT TO THE   *)
(* CONFIGURATION FILE and a relative source_dir is resolved against the    *)
(* configuration file's directory, whatever the working directory is and   *)
(* however the path of the configuration file is spelled.                  *)
(*                                                                         *)
(*   tmp     "same"      a directory on the file system of the sources     *)
(*           "leftovers" the same, with scratch files of a killed run      *)
(*           "nested"    the same, a deeper path with a blank in a name    *)
(*           "relative"  the same, TMPDIR given relative to the cwd        *)
(*           "otherfs"   a directory on another file system (EXDEV)        *)
(*           "missing"   a path that does not exist                        *)
(*           "nonutf8"   a directory whose name is not valid UTF-8         *)
(*   cfg     how --config is spelled: absolute, bare file name (cwd = its  *)
(*           directory), ./name, dir/name from the parent, ../name from    *)
(*           the source directory, ../dir/name                             *)
(*   srcdir  how source_dir is spelled in the configuration: relative,     *)
(*           absolute, ./src/ , src/../src                                 *)
(*                                                                         *)
(* The operators below are PREDICTIONS about one edit run on a tree with   *)
(* at least one statement to fill; the harness compares them with what the *)
(* binary does (a mismatch is specification drift, not a violation); the   *)
(* PROPERTIES are judged, as everywhere, by Observe.tla on the recorded    *)
(* run - they must hold in every environment.                              *)
(***************************************************************************)
EXTENDS Integers, Sequences, FiniteSets, TLC, Json

CONSTANTS TmpKinds, CfgSpellings, SrcDirSpellings, Styles, Locks, Covering

(* the constants are SEQUENCES (the position of a value is used for the covering design below) *)
Range(q) == {q[i] : i \in 1..Len(q)}
Envs == [tmp : Range(TmpKinds), cfg : Range(CfgSpellings), srcdir : Range(SrcDirSpellings), style : Range(Styles),
         lock : Range(Locks)]

(* which of BreadlogRun's actions the environment forces onto their failure branch *)
CreateFails(e) == e.tmp \in {"missing", "nonutf8"}
RenameFails(e) == e.tmp = "otherfs"
Usable(e)      == ~CreateFails(e) /\ ~RenameFails(e)

(* one edit run on a tree with something to insert *)
EditExit(e)    == IF Usable(e) THEN "zero" ELSE "nonzero"
FilesAfter(e)  == IF Usable(e) THEN "updated" ELSE "original"
(* the lock is written next to the configuration file on every exit of the insert pass *)
LockAfter(e)   == "present"
TmpAfter(e)    == "as_before"        \* no scratch file is left behind by a run that exits normally
(* a --check run never needs TMPDIR *)
CheckDependsOnTmp == FALSE

(* name resolution: every spelling denotes the same three objects *)
ConfigDirOf(c)  == "project"         \* the directory that holds Breadlog.yaml, for every c in CfgSpellings
LockDirOf(c)    == ConfigDirOf(c)
SourceRootOf(c, d) == "project/src"  \* for every spelling of the configuration path and of source_dir

VARIABLES env
vars == <<env>>

(* Covering = "all": the full product.  Covering = "pairs": every pair (tmp, cfg) and every pair (tmp, srcdir), the other
   components rotating - enough for each spelling to meet each TMPDIR kind. *)
Idx(q, x) == CHOOSE i \in 1..Len(q) : q[i] = x
Rot(q, k) == q[(k % Len(q)) + 1]

InCover(e) ==
  \/ Covering = "all"
  \/ /\ Covering = "pairs"
     /\ LET k == Idx(TmpKinds, e.tmp) + Idx(CfgSpellings, e.cfg) IN
        \/ /\ e.srcdir = Rot(SrcDirSpellings, k) /\ e.style = Rot(Styles, k) /\ e.lock = Rot(Locks, k)
        \/ /\ e.cfg = Rot(CfgSpellings, Idx(TmpKinds, e.tmp) + Idx(SrcDirSpellings, e.srcdir))
           /\ e.style = Rot(Styles, k + 1) /\ e.lock = Rot(Locks, k + 1)

Init == env \in {e \in Envs : InCover(e)}
Next == UNCHANGED vars
Spec == Init /\ [][Next]_vars

(* sanity of the predictions against each other *)
Consistent ==
  /\ (EditExit(env) = "zero") <=> (FilesAfter(env) = "updated")
  /\ LockDirOf(env.cfg) = ConfigDirOf(env.cfg)
  /\ CreateFails(env) => ~RenameFails(env)

Dump == PrintT("ENV|" \o ToJson([env |-> env, exit |-> EditExit(env), files |-> FilesAfter(env), lock |-> LockAfter(env),
                                   create_fails |-> CreateFails(env), rename_fails |-> RenameFails(env)]))
=============================================================================
