------------------------------- MODULE MCEnv -------------------------------
(* constant values for Env.tla (TLC configuration files cannot hold sequences) *)
EXTENDS Env
TmpAll  == <<"same", "leftovers", "nested", "relative", "otherfs", "missing", "nonutf8">>
CfgAll  == <<"abs", "bare", "dotrel", "rel", "updown", "dotdot">>
SrcAll  == <<"rel", "abs", "dotslash", "updown">>
StyleAll == <<"unstructured", "structured">>
LockAll == <<"absent", "stale">>
=============================================================================
