\* Implementation-level trace validation: recorded runs replayed through BreadlogRun's own actions
CONSTANTS
  NFiles = 5  MaxSlots = 100  MaxId = 2000000000
  InitRefs = {1}  InitKinds = {"plain"}  InitLocks = {1}
  Modes = {"check", "edit"}  CacheChoices = {TRUE, FALSE}
  AllowBad = TRUE
  MaxRuns = 1000000  MaxFaults = 100  MaxDev = 0  MaxSignals = 100
  ConfigClasses = {"ok"}  AllowEmpty = FALSE
  RecordHist = FALSE
  AllowKill = TRUE  FaultOnLock = TRUE  FaultOnWalk = TRUE
  V_FlushBeforeRename = TRUE  V_FailureConsulted = TRUE  V_LockOnAbort = TRUE
  V_LockFromCounter = TRUE  V_Handled = {"TERM", "INT"}  V_InterruptedCheckFails = TRUE  V_StopEndsDiscovery = TRUE
  V_OverflowFails = TRUE  EnvTmp = "usable"
SPECIFICATION TSpec
CHECK_DEADLOCK FALSE
