------------------------------ MODULE RunTrace ------------------------------
(***************************************************************************)
(* Implementation-level trace specification: are the recorded executions   *)
(* of the real binary behaviours of the model that TLC verified?           *)
(*                                                                         *)
(* The same event stream as Observe.tla (init / dev / start / op / sig /   *)
(* end) is replayed through BreadlogRun's OWN actions:                      *)
(*   - anchor events are consumed by the action they implement (source     *)
(*     open <-> ScanFile / Pass1File / Pass2Next for the file the model is *)
(*     at; temp create <-> CreateTmp; temp write <-> Drain / FlushTmp;     *)
(*     rename <-> RenameTmp; lock create/write <-> LockTrunc / LockWrite;  *)
(*     a failed operation <-> the action's failure branch; sig <-> Signal);*)
(*   - internal steps (ReadLock, InstallHandlers, WriteSlot, DropTmp,      *)
(*     Exit, end of a pass) are taken silently;                            *)
(*   - events with no model counterpart (configuration and lock reads,     *)
(*     directory walking, source reads, unlink of the temp file) are       *)
(*     skipped;                                                            *)
(*   - the file order of the walk (DiscoverEntry) is bound to the          *)
(*     directory entries recorded in the trace;                            *)
(*   - at `end` the model's exit class, tree and lock must equal the       *)
(*     projected post-state of the real run.                               *)
(* A run that can be consumed this way prints ACCEPT|<index of its end     *)
(* event>.  A run for which no such path exists is reported by the harness *)
(* as SPEC-DRIFT: the code has left the verified model although no         *)
(* property need be broken.  (Giving up is always possible, so one TLC run *)
(* judges many histories; after giving up the model is re-synchronised     *)
(* with the observed post-state at `end`.)                                  *)
(***************************************************************************)
EXTENDS BreadlogRun, Json, IOUtils

Rec == ndJsonDeserialize(IOEnv.TRACE)

VARIABLES l, good,
          pend, age,    \* a delivered signal that the model has not applied yet, and how many events were consumed since
          out           \* OUTPUT PROTOCOL: reference-tagged log lines the model has emitted and the trace has not shown yet;
                        \* each element is the set of codes acceptable at that position
tvars == <<l, good, pend, age, out>>
allvars == <<vars, l, good, pend, age, out>>

Has == l <= Len(Rec)
Ev == Rec[l]
(* The interposer raises a signal INSIDE the call of the next operation, i.e. after the program has polled its stop flag for
   that operation: the model applies a recorded signal either at once or right after the next event (never later). *)
Say(q) == out' = out \o q
Quiet == out' = out
FailCode == IF p.mode = "check" THEN {28} ELSE {30}
Adv == /\ (pend = "none" \/ age = 0)
       /\ l' = l + 1 /\ pend' = pend /\ age' = IF pend = "none" THEN 0 ELSE age + 1
Keep == good' = good
NoSig == pend' = "none" /\ age' = 0

Pad(fs) == [f \in Files |-> IF f <= Len(fs) THEN fs[f] ELSE <<>>]
SetOf(bs) == {f \in Files : f <= Len(bs) /\ bs[f]}

G0 == [written |-> {}, runs |-> 0, faults |-> 0, devs |-> 0, sigs |-> 0, nextUid |-> 100,
       exit |-> XNone, pre |-> <<>>, preLock |-> LAbsent, mode |-> "none", interrupted |-> FALSE,
       sigAfterHandlers |-> FALSE, failedUpdate |-> FALSE, cacheUsed |-> FALSE, killed |-> FALSE,
       preVisible |-> <<>>, lastCheck |-> Null, clean |-> FALSE, cleanAtStart |-> FALSE,
       lockFault |-> FALSE, exhausted |-> FALSE, mustFail |-> FALSE, hist |-> <<>>]

TInit ==
  /\ l = 1 /\ good = TRUE /\ pend = "none" /\ age = 0 /\ out = <<>>
  /\ present = {} /\ bad = {} /\ tree = [f \in Files |-> <<>>] /\ upto = [f \in Files |-> 1]
  /\ lock = LAbsent /\ tmpdir = {} /\ p = Idle /\ g = G0

LoadState(e) ==
  /\ present' = SetOf(e.present) /\ bad' = SetOf(e.bad)
  /\ tree' = Pad(e.files)
  /\ upto' = [f \in Files |-> Len(Pad(e.files)[f]) + 1]
  /\ lock' = e.lock /\ tmpdir' = {}

EInit == Has /\ Ev.ev = "init" /\ l' = l + 1 /\ NoSig /\ good' = TRUE /\ LoadState(Ev) /\ p' = Idle /\ g' = G0 /\ out' = <<>>
EDev  == Has /\ Ev.ev = "dev" /\ p.pc = "idle" /\ Adv /\ Keep /\ Quiet /\ LoadState(Ev) /\ p' = Idle
         /\ g' = [g EXCEPT !.exit = XNone, !.clean = FALSE, !.lastCheck = Null]
(* the state of the configuration is part of the start event ("ok" when absent) *)
StartClass == IF "cc" \in DOMAIN Ev THEN Ev.cc ELSE "ok"
EStart == Has /\ Ev.ev = "start" /\ good /\ Adv /\ Keep /\ StartRun(Ev.mode, Ev.cache, StartClass) /\ out' = <<{22}>>

-----------------------------------------------------------------------------
IsOp(c, o) == Has /\ Ev.ev = "op" /\ Ev.cls = c /\ Ev.op = o
IsNoise == Has /\ Ev.ev = "op" /\
             \/ (Ev.cls \in {"cfg", "other"} /\ ~Ev.injected /\ ~(Ev.raw = "readdir" /\ Ev.ent > 0))
             \/ (Ev.cls = "lock" /\ Ev.op \in {"stat", "open", "read", "fsync"} /\ Ev.ok)
             \/ (Ev.cls = "src" /\ Ev.op = "read")
             \/ (Ev.cls = "tmp" /\ Ev.op \in {"unlink", "fsync", "write_orphan"})
ENoise == good /\ IsNoise /\ Adv /\ Keep /\ Quiet /\ UNCHANGED vars
(* a log line of the real run must be the next one the model has emitted *)
ELogLine == /\ good /\ Has /\ Ev.ev = "log" /\ out # <<>> /\ Ev.code \in Head(out)
            /\ out' = Tail(out) /\ Adv /\ Keep /\ UNCHANGED vars

Silent(A, q) == good /\ A /\ UNCHANGED <<l, good, pend, age>> /\ Say(q)
With(A, cond, q) == good /\ cond /\ A /\ Adv /\ Keep /\ Say(q)

IsPrefixOf(a, b) == Len(a) <= Len(b) /\ \A i \in 1..Len(a) : a[i] = b[i]

(* Source discovery: every directory entry the walk is handed is an event (raw = "readdir", ent = the in-scope file, 0 for
   anything else, -1 when a directory is exhausted).  The order in which the model walks the files is the order of these
   events - and, through OpenCur, the order in which the passes open them. *)
IsEntry == Has /\ Ev.ev = "op" /\ Ev.raw = "readdir" /\ Ev.ok /\ ~Ev.injected
StartSays == IF p.cc = "nosourcedir" THEN <<{1}, FailCode>>               \* "Failed to read metadata of ..."
             ELSE IF p.cc = "sourcedirfile" THEN <<{2}, FailCode>>        \* "... is not a directory"
             ELSE <<>>
PassesSay == IF p.mode = "check" THEN <<{15}>>
             ELSE IF p.cached # NoRef THEN <<{16}, {17}, {20}>> ELSE <<{16}, {18}>>
TDiscoverStart == Silent(DiscoverStart, StartSays)
TDiscoverEntry == /\ good /\ IsEntry /\ Ev.ent > 0 /\ DiscoverEntry
                  /\ (p.stop \/ p'.order = Append(p.order, Ev.ent))
                  /\ Adv /\ Keep /\ Say(IF p.stop THEN <<FailCode>> ELSE <<>>)
(* an entry that is no in-scope file (another extension): the stop flag is polled for it all the same *)
TDiscoverOtherStop == /\ good /\ p.pc = "walk" /\ p.stop /\ IsEntry /\ Ev.ent = 0
                      /\ FinishInterrupted(XNonZero) /\ Adv /\ Keep /\ Say(<<FailCode>>) /\ UNCHANGED fsvars
TDiscoverDone == Silent(DiscoverDone, IF p.order = <<>> THEN <<FailCode>> ELSE PassesSay)
(* reading the directory fails: the walk of that directory is over, silently *)
TDiscoverFault == With(DiscoverFault, Has /\ Ev.ev = "op" /\ Ev.raw = "readdir" /\ ~Ev.ok /\ Ev.injected, <<>>)
TDiscover == TDiscoverStart \/ TDiscoverEntry \/ TDiscoverOtherStop \/ TDiscoverDone \/ TDiscoverFault

(* does a read of the file opened by event i fail (injected) right after it? *)
ReadFailsAfter(i) ==
  \E j \in {i + 1, i + 2, i + 3} : j <= Len(Rec) /\ Rec[j].ev = "op" /\ Rec[j].cls = "src" /\ Rec[j].op = "read"
                                    /\ Rec[j].id = Rec[i].id /\ ~Rec[j].ok
                                    /\ \A k \in (i + 1)..(j - 1) : Rec[k].ev = "op" /\ Rec[k].cls = "src" /\ Rec[k].op = "read"

AtFile == p.pc \in {"scan", "p1", "p2"} /\ p.i >= 1 /\ p.i <= Len(p.order) /\ ~p.stop
OpenCur == IsOp("src", "open") /\ Ev.ok /\ Ev.id = p.order[p.i] /\ ~ReadFailsAfter(l)
(* what the per-file step of each pass prints *)
RECURSIVE SlotLines(_)
SlotLines(seq) == IF seq = <<>> THEN <<>>
                  ELSE (IF Head(seq).kind = "unusable" THEN <<{35}>> ELSE IF Missing(Head(seq)) THEN <<{5}>> ELSE <<>>) \o SlotLines(Tail(seq))
FileSays == LET f == p.order[p.i] IN
            IF f \in bad THEN <<{4}>>
            ELSE IF p.pc = "scan" THEN SlotLines(tree[f]) \o <<{6}>> ELSE <<>>
EndSays == IF p.pc = "scan" THEN (IF p.stop THEN <<{28}>> ELSE <<{7}>> \o (IF p.accMissing > 0 THEN <<{28}>> ELSE <<>>))
           ELSE IF p.pc = "p1" THEN (IF p.stop THEN <<{30}>>
                                     ELSE IF p.accMissing = 0 THEN <<{19}>>
                                     ELSE IF p.accMax >= MaxId THEN <<{37}, {30}>> ELSE <<{20}>>)
           ELSE <<>>
LoopHead(A) == IF AtFile THEN With(A, OpenCur, FileSays) ELSE Silent(A, EndSays)

(* a source file that cannot be opened or read (injected failure) is skipped like an unreadable one *)
TSkipUnreadable ==
  /\ good /\ p.pc \in {"scan", "p1", "p2"} /\ AtFile
  /\ Has /\ Ev.ev = "op" /\ Ev.cls = "src" /\ Ev.op = "open" /\ Ev.id = p.order[p.i]
  /\ (~Ev.ok \/ ReadFailsAfter(l))
  /\ p' = [p EXCEPT !.i = @ + 1] /\ Adv /\ Keep /\ Say(<<{4}>>)
  /\ UNCHANGED <<fsvars, g>>

(* failures of operations outside the per-file loop *)
TCfgFail ==          \* the configuration cannot be read: main() gives up before anything else
  /\ good /\ p.pc = "readlock" /\ Has /\ Ev.ev = "op" /\ Ev.cls = "cfg" /\ ~Ev.ok /\ Ev.injected
  /\ p' = [p EXCEPT !.pc = "exit2"] /\ Adv /\ Keep /\ Say(<<{23}>>) /\ UNCHANGED <<fsvars, g>>
TReadLockFail ==     \* the lock does not exist (silent: no cached ID), or it cannot be examined / opened / read (the run gives up)
  /\ good /\ p.pc = "readlock" /\ Has /\ Ev.ev = "op" /\ Ev.cls = "lock" /\ Ev.op \in {"stat", "open", "read"} /\ ~Ev.ok
  /\ Adv /\ Keep /\ UNCHANGED fsvars
  /\ IF Ev.err = 2 /\ ~Ev.injected
       THEN p' = [p EXCEPT !.pc = "handlers", !.cached = NoRef] /\ g' = g /\ Say(<<>>)
       ELSE IF p.mode = "check"     \* checking does not need the lock: a warning, nothing cached
         THEN p' = [p EXCEPT !.pc = "handlers", !.cached = NoRef] /\ g' = [g EXCEPT !.faults = @ + 1]
              /\ Say(IF Ev.op = "stat" THEN <<{39}>> ELSE <<{32}, {39}>>)
         ELSE p' = [p EXCEPT !.pc = "exit2"] /\ g' = [g EXCEPT !.faults = @ + 1]
              /\ Say(IF Ev.op = "stat" THEN <<{24}>> ELSE <<{32}, {24}>>)
TDiscoverFail ==     \* the source directory cannot be examined: "Code discovery error" / "No files found"
  /\ good /\ p.pc = "discover" /\ Has /\ Ev.ev = "op" /\ Ev.cls = "other" /\ ~Ev.ok /\ Ev.injected /\ Ev.raw # "readdir"
  /\ FinishInterrupted(XNonZero) /\ Adv /\ Keep /\ Say(IF Ev.raw = "stat" THEN <<{1, 2}, FailCode>> ELSE <<FailCode>>) /\ UNCHANGED fsvars

NoNewFault == g'.faults = g.faults
NewFault == g'.faults = g.faults + 1
WriteErr == {11, 12, 13, 36}
TCreateOk   == With(CreateTmp /\ NoNewFault, IsOp("tmp", "create") /\ Ev.ok, <<>>)
TCreateFail == With(CreateTmp /\ NewFault, IsOp("tmp", "create") /\ ~Ev.ok, <<{9}>>)
(* the name of the scratch file cannot be formed (TMPDIR is not valid UTF-8): the same failure without any operation *)
TCreateFailSilent == Silent(CreateTmp /\ NewFault, <<{9}>>)
WriteSlotSays == IF p.pc # "write" \/ p.cur = Null THEN <<>>
                 ELSE IF p.cur.err THEN <<WriteErr>>
                 ELSE IF p.cur.pos < Len(p.cur.data) /\ Missing(p.cur.data[p.cur.pos + 1]) /\ p.counter >= MaxId THEN <<{38}>>
                 ELSE <<>>
TWriteSlot  == Silent(WriteSlot, WriteSlotSays)
TDrainOk    == With(Drain /\ NoNewFault, IsOp("tmp", "write") /\ Ev.ok, <<>>)
TDrainFail  == With(Drain /\ NewFault, IsOp("tmp", "write") /\ ~Ev.ok, <<>>)
TFlushOk    == IF p.pc = "flush" /\ p.cur # Null /\ ~p.cur.err /\ p.cur.dur = p.cur.pos
                 THEN Silent(FlushTmp /\ p'.pc = "rename", <<>>)
                 ELSE With(FlushTmp /\ p'.pc = "rename", IsOp("tmp", "write") /\ Ev.ok, <<>>)
TFlushFail  == \/ With(FlushTmp /\ p'.pc = "p2", IsOp("tmp", "write") /\ ~Ev.ok, <<WriteErr>>)
               \/ (p.pc = "flush" /\ p.cur # Null /\ p.cur.err /\ Silent(FlushTmp /\ p'.pc = "p2", <<WriteErr>>))
TRenameOk   == With(RenameTmp /\ NoNewFault, IsOp("tmp", "rename") /\ Ev.ok, <<>>)
TRenameFail == With(RenameTmp /\ NewFault, IsOp("tmp", "rename") /\ ~Ev.ok, <<{14}>>)
TDrop       == Silent(DropTmp, <<>>)
TLockTruncOk   == With(LockTrunc /\ NoNewFault, IsOp("lock", "create") /\ Ev.ok, <<>>)
TLockTruncFail == With(LockTrunc /\ NewFault, IsOp("lock", "create") /\ ~Ev.ok, <<{33}>>)
TLockWriteOk   == With(LockWrite /\ NoNewFault, IsOp("lock", "write") /\ Ev.ok, <<>>)
TLockWriteFail == With(LockWrite /\ NewFault, IsOp("lock", "write") /\ ~Ev.ok, <<{33}>>)
ExitSays == IF p.pc = "exitfinal" THEN <<{21}>> \o (IF p.failure THEN <<{30}>> ELSE <<>>)
            ELSE IF p.pc = "exit2" /\ p.handlers THEN <<FailCode>>
            ELSE IF p.pc = "exit2" /\ p.cc = "missing" THEN <<{23}>>       \* "Failed to read configuration file"
            ELSE IF p.pc = "exit2" /\ p.cc = "invalid" THEN <<{24}>>       \* "Failed to load configuration"
            ELSE <<>>
ReadLockSays == IF p.cache /\ lock = LCorrupt THEN <<{31}>> ELSE <<>>
HandlersSay == <<{25}, IF p.mode = "check" THEN {27} ELSE {29}>>
TSigArrive == /\ good /\ Has /\ Ev.ev = "sig" /\ pend = "none"
              /\ l' = l + 1 /\ pend' = (IF Ev.sig = 2 THEN "INT" ELSE "TERM") /\ age' = 0 /\ Keep /\ Quiet /\ UNCHANGED vars
TSigApply == good /\ pend # "none" /\ Signal(pend) /\ l' = l /\ NoSig /\ Keep /\ Quiet
TKill   == good /\ Has /\ Ev.ev = "end" /\ Ev.exit = XKilled /\ Kill /\ UNCHANGED tvars

ExitClass(x) == IF x = 0 THEN 0 ELSE IF x = 2 THEN XNonZero ELSE x
StateMatches == p.pc = "idle" /\ g.exit = ExitClass(Ev.exit) /\ tree = Pad(Ev.files) /\ lock = Ev.lock

EEndGood ==
  /\ good /\ Has /\ Ev.ev = "end" /\ StateMatches /\ pend = "none"
  /\ (out = <<>> \/ Ev.exit \in {XKilled, XSignaled})  \* every line the model emitted was printed by the real run
                                                  \* (a process that was killed may die with lines unprinted)
  /\ PrintT("ACCEPT|" \o ToString(l))
  /\ Adv /\ Keep /\ Quiet /\ UNCHANGED vars

(* giving up on the current run: skip its remaining events and re-synchronise at `end` *)
EGiveUp == good /\ Has /\ Ev.ev \in {"op", "sig", "end", "log"} /\ good' = FALSE /\ NoSig /\ out' = <<>> /\ UNCHANGED <<vars, l>>
           /\ PrintT("REACHED|" \o ToString(l) \o "|" \o p.pc)
ESkip   == ~good /\ Has /\ Ev.ev \in {"op", "sig", "start", "log"} /\ l' = l + 1 /\ NoSig /\ Keep /\ Quiet /\ UNCHANGED vars
EResync == /\ ~good /\ Has /\ Ev.ev = "end" /\ l' = l + 1 /\ NoSig /\ good' = TRUE /\ out' = <<>>
           /\ LoadState([present |-> Ev.present, bad |-> Ev.bad, files |-> Ev.files, lock |-> Ev.lock])
           /\ p' = Idle /\ g' = [g EXCEPT !.exit = XNone, !.lastCheck = Null, !.clean = FALSE]

TNext ==
  \/ EInit \/ EDev \/ EStart \/ ENoise \/ ELogLine
  \/ Silent(ReadLock, ReadLockSays) \/ Silent(InstallHandlers, HandlersSay) \/ TDiscover
  \/ LoopHead(ScanFile) \/ LoopHead(Pass1File) \/ LoopHead(Pass2Next) \/ TSkipUnreadable
  \/ TCfgFail \/ TReadLockFail \/ TDiscoverFail
  \/ TCreateOk \/ TCreateFail \/ TCreateFailSilent \/ TWriteSlot \/ TDrainOk \/ TDrainFail \/ TFlushOk \/ TFlushFail
  \/ TRenameOk \/ TRenameFail \/ TDrop
  \/ TLockTruncOk \/ TLockTruncFail \/ TLockWriteOk \/ TLockWriteFail
  \/ Silent(Exit, ExitSays) \/ TSigArrive \/ TSigApply \/ TKill
  \/ EEndGood \/ EGiveUp \/ ESkip \/ EResync

TSpec == TInit /\ [][TNext]_allvars

(* every event of the file is consumed on some path (giving up is always possible, so this only fails on a malformed trace) *)
NotFinished == l <= Len(Rec)
=============================================================================
