------------------------------ MODULE RefToken ------------------------------
(***************************************************************************)
(* C12: when does a message literal count as already carrying a reference? *)
(*                                                                         *)
(* Declarative definition (the property): the literal begins with          *)
(*     "[ref: "  then 1..10 ASCII digits whose value is <= 4294967295      *)
(*     then "]".                                                           *)
(* Operational definition: an automaton that reads the literal one         *)
(* character at a time.  TLC explores every string over the alphabet up to *)
(* the length bound (each reachable state of the automaton is one string)  *)
(* and checks that the two definitions agree on every one of them; every   *)
(* string is printed with the verdict and replayed on the real binary as   *)
(* the start of a message literal.                                         *)
(*                                                                         *)
(* Numbers are digit sequences: TLC integers are 32-bit, so 4294967295 is  *)
(* never an integer here; values are compared as decimal strings.          *)
(***************************************************************************)
EXTENDS Integers, Sequences, FiniteSets, TLC, Json

CONSTANTS Alphabet,      \* symbols: "[", "r", "e", "f", ":", "sp", "]", ASCII digits "0".."9", "d" (a non-ASCII digit),
                         \*          "R" (upper case), "x" (any other letter), "sp2" (a second space)
          MaxExt,        \* bound on the number of symbols appended to a seed
          Seeds          \* set of symbol sequences the exploration starts from (proper prefixes, boundary numbers)

Prefix == <<"[", "r", "e", "f", ":", "sp">>
Digits == {"0", "1", "2", "3", "4", "5", "6", "7", "8", "9"}
MaxDigits == <<"4", "2", "9", "4", "9", "6", "7", "2", "9", "5">>
DigitVal(c) == CASE c = "0" -> 0 [] c = "1" -> 1 [] c = "2" -> 2 [] c = "3" -> 3 [] c = "4" -> 4 [] c = "5" -> 5
                 [] c = "6" -> 6 [] c = "7" -> 7 [] c = "8" -> 8 [] c = "9" -> 9

(* lexicographic comparison of two digit sequences of equal length: -1, 0, 1 *)
RECURSIVE Cmp(_, _)
Cmp(a, b) == IF a = <<>> THEN 0
             ELSE IF DigitVal(Head(a)) < DigitVal(Head(b)) THEN -1
             ELSE IF DigitVal(Head(a)) > DigitVal(Head(b)) THEN 1
             ELSE Cmp(Tail(a), Tail(b))

InRange(ds) == Len(ds) < 10 \/ (Len(ds) = 10 /\ Cmp(ds, MaxDigits) <= 0)

(* ---- declarative ---- *)
DeclValid(w) ==
  \E n \in 1..10 :
     /\ Len(w) >= 6 + n + 1
     /\ SubSeq(w, 1, 6) = Prefix
     /\ \A i \in 7..(6 + n) : w[i] \in Digits
     /\ w[7 + n] = "]"
     /\ InRange(SubSeq(w, 7, 6 + n))

(* ---- automaton ---- *)
(* st: "p0".."p5" = number of prefix characters matched, "dig" = reading digits, "acc" = accepted, "rej" = rejected *)
VARIABLES w, st, ds, ext
vars == <<w, st, ds, ext>>

Step(state, digits, c) ==
  CASE state = "acc" -> <<"acc", digits>>
    [] state = "rej" -> <<"rej", digits>>
    [] state = "p0" -> IF c = "[" THEN <<"p1", <<>>>> ELSE <<"rej", <<>>>>
    [] state = "p1" -> IF c = "r" THEN <<"p2", <<>>>> ELSE <<"rej", <<>>>>
    [] state = "p2" -> IF c = "e" THEN <<"p3", <<>>>> ELSE <<"rej", <<>>>>
    [] state = "p3" -> IF c = "f" THEN <<"p4", <<>>>> ELSE <<"rej", <<>>>>
    [] state = "p4" -> IF c = ":" THEN <<"p5", <<>>>> ELSE <<"rej", <<>>>>
    [] state = "p5" -> IF c = "sp" THEN <<"dig", <<>>>> ELSE <<"rej", <<>>>>
    [] state = "dig" -> IF c \in Digits
                          THEN (IF Len(digits) < 10 THEN <<"dig", Append(digits, c)>> ELSE <<"rej", digits>>)
                          ELSE IF c = "]" /\ Len(digits) >= 1 /\ InRange(digits) THEN <<"acc", digits>>
                          ELSE <<"rej", digits>>

RECURSIVE RunFrom(_, _, _)
RunFrom(state, digits, rest) ==
  IF rest = <<>> THEN <<state, digits>>
  ELSE LET n == Step(state, digits, Head(rest)) IN RunFrom(n[1], n[2], Tail(rest))

Init == /\ w \in Seeds
        /\ LET r == RunFrom("p0", <<>>, w) IN st = r[1] /\ ds = r[2]
        /\ ext = 0

Next == /\ ext < MaxExt
        /\ ext' = ext + 1
        /\ \E c \in Alphabet :
             /\ w' = Append(w, c)
             /\ LET nx == Step(st, ds, c) IN st' = nx[1] /\ ds' = nx[2]

Spec == Init /\ [][Next]_vars

Agree == (st = "acc") <=> DeclValid(w)
(* the token Breadlog writes for any in-range number is valid *)
TokenOf(digits) == Prefix \o digits \o <<"]", "sp">>
Dump == PrintT("TOK|" \o ToJson([w |-> w, valid |-> (st = "acc")]))
=============================================================================
