------------------------------ MODULE Observe ------------------------------
(***************************************************************************)
(* Property-level trace specification.                                     *)
(*                                                                         *)
(* Input: an ndjson file (environment variable TRACE) holding one or more  *)
(* HISTORIES recorded from the real binary: an `init` event with the       *)
(* abstract pre-state, then developer edits (`dev`) and Breadlog runs      *)
(* (`start`, the run's filesystem operations `op` and signals `sig` as     *)
(* recorded by the interposer, `end` with the exit status and the          *)
(* projected post-state).                                                  *)
(*                                                                         *)
(* The specification is deliberately PERMISSIVE about how Breadlog works:  *)
(* it applies generic file semantics to whatever operations occurred in    *)
(* whatever order, and evaluates the property definitions of Props.tla on  *)
(* the projected state after EVERY event (the state after an operation is  *)
(* what a crash at that point leaves behind).  It therefore accepts every  *)
(* execution that satisfies the properties however the code is             *)
(* refactored, and a violation it reports names the property.              *)
(*                                                                         *)
(* A violated property does not stop TLC: it is printed as                 *)
(*    <<"VIOL", property, check name, index of the event, detail>>         *)
(* so that one TLC run judges thousands of recorded runs.  The trace is    *)
(* accepted (POSTCONDITION) when every event was consumed.                 *)
(***************************************************************************)
EXTENDS Integers, Sequences, FiniteSets, TLC, Json, IOUtils, Props

Rec == ndJsonDeserialize(IOEnv.TRACE)

XSignaled == 130
XKilled   == 137
XPanic    == 101
XTimeout  == 124

VARIABLES
  l,         \* index of the next event
  tree,      \* abstract tree: sequence (file index) of sequences of slots
  lock,      \* abstract lock
  maxid,     \* the history's u32::MAX after scaling
  written,   \* ghost: <<id, uid>> pairs the tool has written in this history
  run,       \* per-run record
  tmp,       \* temporary inodes: tmp id -> [len, final]
  at,        \* per source file: 0 = the original inode, n = temporary inode n has been moved there
  lastCheck, \* what the last complete check run reported, and on which tree
  clean      \* TRUE after an edit run exited 0 and nothing changed since

vars == <<l, tree, lock, maxid, written, run, tmp, at, lastCheck, clean>>

Ev == Rec[l]
IsEv(e) == l <= Len(Rec) /\ Rec[l].ev = e /\ l' = l + 1

NoRun == [active |-> FALSE, mode |-> "none", cache |-> FALSE, pre |-> <<>>, preLock |-> LAbsent, failedUpdate |-> FALSE,
          mutated |-> FALSE, scanning |-> FALSE, sigScan |-> FALSE, sigEarly |-> FALSE, opensAfterSig |-> 0,
          faults |-> 0, anyReadable |-> TRUE, lockFault |-> FALSE, started |-> 0, mustFail |-> FALSE]
NoCheck == [valid |-> FALSE, tree |-> <<>>, reported |-> {}, total |-> 0]

(* A violated check is reported, never blocks. *)
Check(prop, name, ok, detail) ==
  IF ok THEN TRUE ELSE PrintT("VIOL|" \o prop \o "|" \o name \o "|" \o ToString(l) \o "|" \o ToJson(detail))

ToSet(s) == {s[i] : i \in DOMAIN s}

-----------------------------------------------------------------------------
(* crash view of the source files: original inode, or a temporary inode that already holds the
   complete new content *)
AtomicNow(a, t) == \A f \in DOMAIN a : a[f] = 0 \/ (t[a[f]].final >= 0 /\ t[a[f]].len = t[a[f]].final)

Init ==
  /\ l = 1 /\ tree = <<>> /\ lock = LAbsent /\ maxid = 0 /\ written = {} /\ run = NoRun
  /\ tmp = <<>> /\ at = <<>> /\ lastCheck = NoCheck /\ clean = FALSE

EvInit ==
  /\ IsEv("init")
  /\ tree' = Ev.files /\ lock' = Ev.lock /\ maxid' = Ev.maxid
  /\ written' = {} /\ run' = NoRun /\ tmp' = <<>> /\ at' = [f \in DOMAIN Ev.files |-> 0]
  /\ lastCheck' = NoCheck /\ clean' = FALSE

EvDev ==
  /\ IsEv("dev") /\ ~run.active
  /\ tree' = Ev.files /\ at' = [f \in DOMAIN Ev.files |-> 0]
  /\ lock' = Ev.lock
  /\ clean' = FALSE /\ lastCheck' = NoCheck
  /\ UNCHANGED <<maxid, written, run, tmp>>

EvStart ==
  /\ IsEv("start") /\ ~run.active
  /\ run' = [NoRun EXCEPT !.active = TRUE, !.mode = Ev.mode, !.cache = Ev.cache, !.pre = tree, !.preLock = lock,
                          !.anyReadable = Ev.any_readable, !.started = l, !.mustFail = Ev.must_fail]
  /\ tmp' = <<>> /\ at' = [f \in DOMAIN tree |-> 0]
  /\ UNCHANGED <<tree, lock, maxid, written, lastCheck, clean>>

-----------------------------------------------------------------------------
(* Filesystem operations.  Fields: op, cls (tmp/src/lock/cfg/other), id (tmp id or file index), dst (file
   index for rename), ok (succeeded), mut (changed the filesystem), cum (bytes written so far on that
   inode), final (tmp creation: length of the complete new content it is destined to hold, -1 unknown),
   scan (TRUE from the first access to the source directory on), injected (a fault was injected here) *)
EvOp ==
  /\ IsEv("op") /\ run.active
  /\ LET e == Ev
         isCreate == e.op = "create" /\ e.cls = "tmp" /\ e.ok
         isWrite  == e.op = "write" /\ e.cls = "tmp" /\ e.ok
         isRename == e.op = "rename" /\ e.cls = "tmp" /\ e.ok /\ e.dst > 0
         inPlace  == e.cls = "src" /\ e.mut          \* the source inode itself was modified
         tmp1 == IF isCreate THEN (e.id :> [len |-> 0, final |-> e.final]) @@ tmp
                 ELSE IF isWrite /\ e.id \in DOMAIN tmp THEN [tmp EXCEPT ![e.id].len = e.cum]
                 ELSE tmp
         at1  == IF isRename THEN [at EXCEPT ![e.dst] = e.id] ELSE at
         failedUpd == run.mode = "edit" /\ ~e.ok /\ e.cls = "tmp" /\ e.op \in {"create", "write", "rename", "fsync"}
     IN
     /\ tmp' = tmp1 /\ at' = at1
     /\ run' = [run EXCEPT !.failedUpdate = @ \/ failedUpd,
                           !.mutated = @ \/ e.mut,
                           !.scanning = @ \/ e.scan,
                           !.faults = IF e.injected THEN @ + 1 ELSE @,
                           !.lockFault = @ \/ (e.cls = "lock" /\ ~e.ok /\ e.op \in {"create", "write"}),
                           !.opensAfterSig = IF run.sigScan /\ e.cls = "src" /\ e.op = "open" THEN @ + 1 ELSE @]
     /\ Check("C07", "AtomicFiles", (isRename \/ isWrite) => AtomicNow(at1, tmp1), e)
     /\ Check("C07", "NoInPlaceRewrite", ~inPlace, e)
     /\ Check("C07", "OthersUntouched", ~(e.mut /\ (e.cls \in {"cfg", "other"} \/ e.dcls \in {"cfg", "other"})), e)
     /\ Check("C04", "CheckIsReadOnly", run.mode = "check" => ~e.mut, e)
     /\ Check("C16", "CacheOffLockUntouched", (~run.cache /\ e.cls = "lock") => e.op \in {"stat"} /\ ~e.mut, e)
     /\ Check("C18", "NoNewFileAfterStop", run.opensAfterSig' <= 1, e)
  /\ UNCHANGED <<tree, lock, maxid, written, lastCheck, clean>>

(* A signal was delivered just before operation k.  handled: a handler for it was installed at that time *)
EvSig ==
  /\ IsEv("sig") /\ run.active
  /\ run' = [run EXCEPT !.sigScan = @ \/ run.scanning, !.sigEarly = @ \/ ~run.scanning]
  /\ UNCHANGED <<tree, lock, maxid, written, tmp, at, lastCheck, clean>>

-----------------------------------------------------------------------------
(* End of a run: exit (0, 2 = non-zero, 130 = died by the signal, 137 = killed, 101 = panic, 124 = timeout),
   files/lock = projected post-state, cls = per file "orig" | "new" | "other", tmpleft, snapeq (the whole
   snapshot of project, config and temp directories is identical to the one taken before the run),
   others_same (everything except the in-scope sources, the lock and the temp directory is identical),
   reported/total (check mode: statements reported as missing), count (edit: the printed number, -1 none) *)
EvEnd ==
  /\ IsEv("end") /\ run.active
  /\ LET e == Ev
         post == e.files
         pre == run.pre
         new == IF run.mode = "edit" THEN NewPairs(pre, post) ELSE {}
         w1 == written \cup new
         normal == e.exit \in {0, 2}
         interrupted == run.sigScan \/ run.sigEarly
         faulted == run.faults > 0
         editOK == run.mode = "edit" /\ e.exit = 0
     IN
     /\ tree' = post /\ lock' = e.lock /\ written' = w1
     /\ run' = NoRun /\ tmp' = <<>> /\ at' = [f \in DOMAIN post |-> 0]
     /\ lastCheck' = IF run.mode = "check"
                       THEN (IF normal /\ ~interrupted /\ ~faulted
                               THEN [valid |-> TRUE, tree |-> pre, reported |-> ToSet(e.reported), total |-> e.total]
                               ELSE NoCheck)
                       ELSE IF post = pre THEN lastCheck ELSE NoCheck
     /\ clean' = IF run.mode = "edit" THEN editOK ELSE clean
     (* C01 *)
     /\ Check("C01", "UniqueInRange", run.mode = "edit" => UniqueInRange(pre, post, run.preLock, run.cache, maxid), [new |-> new, exit |-> e.exit])
     /\ Check("C01", "ExhaustedFails", (run.mode = "edit" /\ e.exit = 0) => ~AnyMissing(post), e.exit)
     (* C02 *)
     /\ Check("C02", "NoReuse", NoReuse(w1), [new |-> new, written |-> written])
     /\ Check("C02", "LockDominates", (run.mode = "edit" /\ run.cache) => LockDominates(e.lock, w1),
              [lock |-> e.lock, written |-> w1, exit |-> e.exit, lockFault |-> run.lockFault])
     (* C03 *)
     /\ Check("C03", "OnlyInsertions", normal => \A f \in DOMAIN e.pure : e.pure[f], e.pure)
     /\ Check("C03", "ExistingKept", run.mode = "edit" => ExistingKept(pre, post), e.exit)
     (* C04 *)
     /\ Check("C04", "CheckLeavesSnapshot", run.mode = "check" => (e.snapeq /\ post = pre /\ e.lock = run.preLock), e.exit)
     (* C05 *)
     /\ Check("C05", "VerdictExact", (run.mode = "check" /\ normal /\ ~interrupted /\ ~faulted) =>
                                        VerdictExact(pre, e.exit, run.anyReadable), e.exit)
     /\ Check("C05", "MissingMeansNonZero", (run.mode = "check" /\ normal /\ ~faulted /\ run.anyReadable /\ AnyMissing(pre)) => e.exit # 0, e.exit)
     /\ Check("C05", "ReportedExact", (run.mode = "check" /\ normal /\ ~interrupted /\ ~faulted /\ run.anyReadable) =>
                                        (ToSet(e.reported) = MissingUids(pre) /\ e.total = Cardinality(MissingUids(pre))),
              [reported |-> e.reported, total |-> e.total])
     /\ Check("C05", "CheckPredictsEdit", (editOK /\ ~interrupted /\ ~faulted /\ lastCheck.valid /\ lastCheck.tree = pre) =>
                                        {pr[2] : pr \in new} = lastCheck.reported, [new |-> new, reported |-> lastCheck.reported])
     /\ Check("C05", "CountMatchesCheckTotal", (editOK /\ ~interrupted /\ ~faulted /\ lastCheck.valid /\ lastCheck.tree = pre /\ e.count >= 0) =>
                                        e.count = lastCheck.total, [count |-> e.count, total |-> lastCheck.total])
     /\ Check("C05", "LocationsExact", e.pos_match, e.exit)
     /\ Check("C05", "CountIsActual", (run.mode = "edit" /\ e.count >= 0) => e.count = Cardinality(new), [count |-> e.count, new |-> new])
     (* C06 *)
     /\ Check("C06", "FixpointCheck", (run.mode = "check" /\ clean /\ normal /\ ~interrupted /\ ~faulted) => e.exit = 0, e.exit)
     /\ Check("C06", "FixpointEdit", (run.mode = "edit" /\ clean /\ normal /\ ~faulted) =>
                                        (post = pre /\ e.lock = run.preLock /\ \A f \in DOMAIN e.cls : e.cls[f] \in {"orig", "gone"}),
              [lock |-> e.lock, prelock |-> run.preLock])
     /\ Check("C06", "InsertedAreRecognised", (run.mode = "edit" /\ normal) => ToSet(e.inserted_ids) \subseteq RefsOf(post),
              [inserted |-> e.inserted_ids])
     /\ Check("C06", "ReadBackExact", (run.mode = "edit" /\ NoLockUsed(run.preLock, run.cache)) =>
                                        \A x \in Ids(new) : \A r \in RefsOf(pre) : x > r, [new |-> new])
     (* C07 *)
     /\ Check("C07", "AtomicAtEnd", \A f \in DOMAIN e.cls : e.cls[f] \in {"orig", "new", "gone"}, e.cls)
     /\ Check("C07", "OthersSame", e.others_same, e.exit)
     (* C08 *)
     /\ Check("C08", "FailureMeansNonZero", (run.mode = "edit" /\ run.failedUpdate) => e.exit # 0, e.exit)
     /\ Check("C08", "ExitZeroMeansDone", editOK => ~AnyMissing(post), e.exit)
     /\ Check("C08", "NoTmpLeft", normal => e.tmpleft = 0, e.tmpleft)
     (* C16 *)
     /\ Check("C16", "CacheOffLockSame", ~run.cache => e.lock = run.preLock, e.lock)
     /\ Check("C16", "CacheDefaultOn", (editOK /\ run.cache /\ new # {}) => (e.lock >= 0 /\ LockDominates(e.lock, w1)), e.lock)
     (* "an inserting edit run writes the lock": also one that inserted into some files and failed on others *)
     /\ Check("C16", "InsertingRunWritesLock", (run.mode = "edit" /\ normal /\ run.cache /\ new # {} /\ ~run.lockFault /\ ~interrupted)
                                                => LockDominates(e.lock, new), [lock |-> e.lock, new |-> new, exit |-> e.exit])
     /\ Check("C16", "CorruptLockFallsBackToScan", (run.mode = "edit" /\ run.cache /\ run.preLock = LCorrupt) =>
                                        \A x \in Ids(new) : \A r \in RefsOf(pre) : x > r, [new |-> new])
     /\ Check("C16", "SwitchesRespected", (editOK /\ ~faulted) => ~AnyMissing(post), e.exit)
     /\ Check("C16", "OutOfScopeUntouched", e.others_same, e.exit)
     /\ Check("C16", "ErrorExitChangesNothing", run.mustFail => (e.exit = 2 /\ e.snapeq), [exit |-> e.exit, snapeq |-> e.snapeq])
     (* C17 *)
     /\ Check("C17", "NoPanicNoHang", e.exit \notin {XPanic, XTimeout}, e.exit)
     (* C18 *)
     /\ Check("C18", "ExitsByItself", run.sigScan => e.exit # XSignaled, e.exit)
     /\ Check("C18", "InterruptedNeverPasses", (run.sigScan /\ e.exit = 0) => ~AnyMissing(post), e.exit)
     (* "the lock file covers every ID written": the IDs this run wrote (the history as a whole is C02's subject) *)
     /\ Check("C18", "LockCoversAfterStop", (run.sigScan /\ run.mode = "edit" /\ run.cache) => LockDominates(e.lock, new),
              [lock |-> e.lock, written |-> new, exit |-> e.exit])
     (* a lock value that a stopped run wrote (it differs from the one the run found) covers every ID in the sources, not only
        the IDs of the part of the tree the run got to see *)
     /\ Check("C18", "WrittenLockCoversTree", (run.sigScan /\ run.mode = "edit" /\ run.cache /\ LockOK(pre, run.preLock, run.cache)
                                               /\ e.lock # run.preLock /\ e.lock >= 1) => \A r \in RefsOf(post) : e.lock > r,
              [lock |-> e.lock, prelock |-> run.preLock])
     /\ Check("C18", "AtomicAfterStop", (run.sigScan \/ run.sigEarly) => \A f \in DOMAIN e.cls : e.cls[f] \in {"orig", "new", "gone"}, e.cls)
     /\ Check("C18", "EarlySignalHarmless", (run.sigEarly /\ e.exit = XSignaled) => ~run.mutated, e.exit)
  /\ UNCHANGED maxid

(* Breadlog's own reference-tagged log lines, in sequence with the operations (consumed by RunTrace's output protocol) *)
EvLog == IsEv("log") /\ UNCHANGED <<tree, lock, maxid, written, run, tmp, at, lastCheck, clean>>

Next == EvInit \/ EvDev \/ EvStart \/ EvOp \/ EvSig \/ EvEnd \/ EvLog
Spec == Init /\ [][Next]_vars

(* acceptance: every event consumed; on rejection name the first event that could not be matched *)
Accepted ==
  LET d == TLCGet("stats").diameter IN
  IF d - 1 = Len(Rec) THEN TRUE
  ELSE Print(<<"REJECTED", d, IF d <= Len(Rec) THEN Rec[d] ELSE "eof">>, FALSE)
=============================================================================
