----------------------------- MODULE Directives -----------------------------
(***************************************************************************)
(* C14: which statements does a directive comment affect?                  *)
(*                                                                         *)
(* A file is a sequence of LINES.  Line kinds:                             *)
(*   "blank"      empty or white-space only                                *)
(*   "blankrun"   a run of 120 such lines (hundreds of bytes)               *)
(*   "code"       code without a log statement and without a comment       *)
(*   "attr"       an attribute line (#[cfg(...)], #[allow(...)]): code too  *)
(*   "cmt"        an ordinary comment line                                 *)
(*   "cmtextra"   a comment that contains the directive text plus other    *)
(*                text ("// breadlog:ignore please")                       *)
(*   "ign..", "nokvp.."  a line whose only content is a comment whose text *)
(*                is the directive: //, single-line block comment, upper   *)
(*                case, padded with spaces, written tightly                *)
(*   "stmt"       one log statement lacking a reference starts (and ends)  *)
(*                on this line                                             *)
(*   "stmt2"      two such statements start on this line                   *)
(*   "stmtml"     a statement that starts on this line and continues on    *)
(*                the following two lines (rendered as one item)           *)
(*   "codetrail"  code followed by a TRAILING directive comment            *)
(*   "stmttrail"  a statement followed by a trailing directive comment     *)
(*   "sameline"   a directive comment and then a statement on one line     *)
(*   "stmturl"    a statement whose message contains comment-like text     *)
(*                ("see http://x"): one more statement line                *)
(*   "strdir"     code whose string literal contains the text of a block   *)
(*                comment directive: not a comment at all                  *)
(*                                                                         *)
(* Effect(lines, i) for a statement-bearing line i:                        *)
(*   the nearest non-blank line above i decides: a directive line gives    *)
(*   "ignore"/"nokvp"; code, ordinary comments, comments with extra text,  *)
(*   statement lines give "none"; a line on which a directive comment      *)
(*   shares the line with code (trailing, or in front of a statement) is   *)
(*   ambiguous in the property text and gives "any".                       *)
(***************************************************************************)
EXTENDS Integers, Sequences, FiniteSets, TLC, Json

CONSTANTS LineKinds, MaxLines, Modes

IgnoreLines == {"ign", "ignblock", "ignupper", "ignpadded", "igntight"}
NoKvpLines  == {"nokvp", "nokvpblock", "nokvpupper"}
StmtLines   == {"stmt", "stmt2", "stmtml", "stmttrail", "sameline", "stmturl"}
TrailingLines == {"codetrail", "stmttrail", "sameline"}   \* a directive comment that shares its line with code

RECURSIVE NearestNonBlankAbove(_, _)
NearestNonBlankAbove(lines, i) ==
  IF i <= 1 THEN 0
  ELSE IF lines[i - 1] \notin {"blank", "blankrun"} THEN i - 1
  ELSE NearestNonBlankAbove(lines, i - 1)

Effect(lines, i) ==
  LET j == NearestNonBlankAbove(lines, i) IN
  IF j = 0 THEN "none"
  ELSE IF lines[j] \in IgnoreLines THEN "ignore"
  ELSE IF lines[j] \in NoKvpLines THEN "nokvp"
  ELSE IF lines[j] \in TrailingLines THEN "any"
  ELSE "none"

(* what must happen to the statements starting on line i *)
Outcome(lines, i, mode) ==
  LET e == Effect(lines, i) IN
  IF e = "any" THEN "any"
  ELSE IF e = "ignore" THEN "ignored"
  ELSE "missing"
Place(lines, i, mode) ==
  IF Outcome(lines, i, mode) # "missing" THEN "nowhere"
  ELSE IF mode = "structured" /\ Effect(lines, i) # "nokvp" THEN "key_value" ELSE "message_start"

VARIABLES lines, mode
vars == <<lines, mode>>

Files == UNION {[1..n -> LineKinds] : n \in 1..MaxLines}
HasStmt(f) == \E i \in 1..Len(f) : f[i] \in StmtLines

Init == /\ lines \in {f \in Files : HasStmt(f)}
        /\ mode \in Modes
Next == UNCHANGED vars
Spec == Init /\ [][Next]_vars

(* consistency of the definition with the prose of the property *)
DirectiveLines == IgnoreLines \cup NoKvpLines
(* a directive affects the statements of at most one line: the first statement-bearing line below it, and only
   if nothing but blank lines lies in between *)
AtMostOneLine ==
  \A d \in 1..Len(lines) : lines[d] \in DirectiveLines =>
     Cardinality({i \in 1..Len(lines) : lines[i] \in StmtLines /\ NearestNonBlankAbove(lines, i) = d}) <= 1
(* separated by a code or comment line: no effect *)
SeparatedMeansNone ==
  \A i \in 1..Len(lines) : (lines[i] \in StmtLines /\ NearestNonBlankAbove(lines, i) # 0
                              /\ lines[NearestNonBlankAbove(lines, i)] \in {"code", "attr", "cmt", "cmtextra", "stmt", "stmt2", "stmtml", "strdir", "stmturl"})
                             => Effect(lines, i) = "none"
(* a directive placed after the statement never affects it *)
AfterMeansNone ==
  \A i \in 1..Len(lines) : (lines[i] \in StmtLines /\ NearestNonBlankAbove(lines, i) = 0) => Effect(lines, i) = "none"

Dump == PrintT("DIR|" \o ToJson([lines |-> lines, mode |-> mode,
                                   stmts |-> [i \in 1..Len(lines) |->
                                                IF lines[i] \in StmtLines
                                                  THEN [outcome |-> Outcome(lines, i, mode), place |-> Place(lines, i, mode)]
                                                  ELSE [outcome |-> "noline", place |-> "nowhere"]]]))
=============================================================================
