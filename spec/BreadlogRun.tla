---------------------------- MODULE BreadlogRun ----------------------------
(***************************************************************************)
(* Run-level model of Breadlog, shaped like the implementation: one action *)
(* per critical section of a run (src/main.rs, src/config/context.rs,      *)
(* src/codegen/finder.rs, src/codegen/generate.rs), environment actions    *)
(* for I/O failures, signals and process death, and developer edits        *)
(* between runs.                                                            *)
(*                                                                         *)
(* Persistent state: the source tree, the lock file, the temporary         *)
(* directory.  Process state: the record p.  Ghost state (never read by    *)
(* the process actions): the record g.                                      *)
(*                                                                         *)
(* Variant constants (prefix V_) select between behaviours that were found in    *)
(* the pinned commit and the behaviour the properties require; see         *)
(* DESIGN.md section 3.1.                                                   *)
(***************************************************************************)
EXTENDS Integers, Sequences, FiniteSets, TLC, Props

CONSTANTS
  NFiles,               \* files are identified by 1..NFiles
  MaxSlots,             \* statements per file
  MaxId,                \* the model's u32::MAX
  InitRefs,             \* reference values that may pre-exist (subset of 0..MaxId)
  InitKinds,            \* kinds of pre-existing statements
  InitLocks,            \* lock values in initial states
  Modes,                \* subset of {"check","edit"}
  CacheChoices,         \* subset of BOOLEAN : use_cache values explored
  AllowBad,             \* TRUE: files may be unreadable (not UTF-8)
  MaxRuns, MaxFaults, MaxDev, MaxSignals, AllowKill,
  FaultOnLock,          \* TRUE: the lock open/write may fail too
  FaultOnWalk,          \* TRUE: reading the source directory may fail in the middle of the walk
  ConfigClasses,        \* subset of {"ok","missing","invalid","nosourcedir","sourcedirfile"}: state of the configuration
  AllowEmpty,           \* TRUE: the set of in-scope files may be empty
  RecordHist,           \* TRUE: keep the sequence of developer edits and run requests in g.hist (replay input)
  V_FlushBeforeRename,  \* TRUE: the temp file is flushed (errors checked) before the rename
  V_FailureConsulted,   \* TRUE: a failed file makes the run exit non-zero
  V_LockOnAbort,        \* TRUE: the lock is written on every way out of pass 2
  V_LockFromCounter,    \* TRUE: lock value = counter; FALSE: start + number inserted
  V_Handled,            \* subset of {"INT","TERM"} wired to the stop flag
  V_InterruptedCheckFails,
  V_StopEndsDiscovery,  \* TRUE: a stop request seen while the source directory is walked ends the run; FALSE: the walk
                        \* hands on the files found so far and the request counts as dealt with
  V_OverflowFails,      \* TRUE: exhausting the ID range is an error; FALSE: wraps to 0
  EnvTmp                \* the environment's TMPDIR (Env.tla): "usable" | "nocreate" (missing / name not UTF-8: every
                        \* CreateTmp fails) | "norename" (another file system: every RenameTmp fails); these failures
                        \* are not counted against MaxFaults

Files == 1..NFiles
XNone     == -1
XNonZero  == 2      \* any non-zero exit status
XSignaled == 130    \* terminated by the signal (no handler)
XKilled   == 137    \* SIGKILL / crash
Null      == [none |-> TRUE]

VARIABLES
  present,   \* set of files that exist
  bad,       \* set of present files that cannot be read as text
  tree,      \* [Files -> Seq(slot)] logical content of the inode at each path
  upto,      \* [Files -> Nat] durable units of that inode (Len+1 = complete)
  lock,      \* LAbsent | LCorrupt | Nat
  tmpdir,    \* set of files f whose temporary file currently exists in TMPDIR
  p,         \* process record
  g          \* ghost record

vars == <<present, bad, tree, upto, lock, tmpdir, p, g>>
fsvars == <<present, bad, tree, upto, lock, tmpdir>>

Max(S) == IF S = {} THEN 0 ELSE CHOOSE m \in S : \A x \in S : x <= m
SeqRefs(seq) == {seq[j].ref : j \in {k \in 1..Len(seq) : Recognised(seq[k])}}
Complete(f) == upto[f] = Len(tree[f]) + 1
Perms(S) == {s \in [1..Cardinality(S) -> S] : \A i, j \in 1..Cardinality(S) : i # j => s[i] # s[j]}
Visible == [f \in present \ bad |-> tree[f]]       \* what a scan can see

Idle == [pc |-> "idle", mode |-> "none", cache |-> FALSE, cached |-> NoRef, handlers |-> FALSE,
         stop |-> FALSE, order |-> <<>>, i |-> 0, accMax |-> 0, accMissing |-> 0, counter |-> 0,
         start |-> 0, inserted |-> 0, failure |-> FALSE, cur |-> Null, reported |-> {}, cc |-> "ok",
         hidden |-> {}]     \* in-scope files the walk will not be shown (their directory could not be read on)

SlotSeqs == UNION {[1..n -> [uid : {0}, ref : {NoRef} \cup InitRefs, kind : InitKinds]] : n \in 0..MaxSlots}
(* initial statements get the unique identity 10 * file + position; later ones count from 100 *)
WithUids(t) == [f \in Files |-> [j \in 1..Len(t[f]) |-> [t[f][j] EXCEPT !.uid = 10 * f + j]]]

Init ==
  /\ present \in IF AllowEmpty THEN SUBSET Files ELSE (SUBSET Files) \ {{}}
  /\ bad \in IF AllowBad THEN SUBSET present ELSE {{}}
  /\ \E t \in [Files -> SlotSeqs] :
        /\ \A f \in Files : f \notin present \/ f \in bad => t[f] = <<>>
        /\ \A f \in Files : \A j \in 1..Len(t[f]) : t[f][j].kind # "plain" => t[f][j].ref = NoRef
        /\ tree = WithUids(t)
  /\ upto = [f \in Files |-> Len(tree[f]) + 1]
  /\ lock \in InitLocks
  /\ tmpdir = {}
  /\ p = Idle
  /\ g = [written |-> {}, runs |-> 0, faults |-> 0, devs |-> 0, sigs |-> 0, nextUid |-> 100,
          exit |-> XNone, pre |-> <<>>, preLock |-> LAbsent, mode |-> "none", interrupted |-> FALSE,
          sigAfterHandlers |-> FALSE, failedUpdate |-> FALSE, cacheUsed |-> FALSE, killed |-> FALSE,
          preVisible |-> <<>>, lastCheck |-> Null, clean |-> FALSE, cleanAtStart |-> FALSE,
          lockFault |-> FALSE, exhausted |-> FALSE, mustFail |-> FALSE,
          hist |-> IF RecordHist THEN <<[t |-> "init", tree |-> tree, lock |-> lock, present |-> present, bad |-> bad]>> ELSE <<>>]

-----------------------------------------------------------------------------
(* Start of a run: main() has parsed the arguments and read the configuration *)
(* main.rs:40-83: a configuration that cannot be read or parsed ends the run before anything else happens;
   a missing or non-directory source directory is detected by the finder (finder.rs:84-99) *)
StartRun(mode, useCache, cc) ==
  /\ p.pc = "idle" /\ g.runs < MaxRuns
  /\ p' = [Idle EXCEPT !.pc = IF cc \in {"missing", "invalid"} THEN "exit2" ELSE "readlock", !.mode = mode,
                        !.cache = useCache, !.cc = cc]
  /\ g' = [g EXCEPT !.runs = @ + 1, !.faults = 0, !.sigs = 0, !.exit = XNone, !.pre = tree, !.preLock = lock,
                    !.mode = mode, !.interrupted = FALSE, !.sigAfterHandlers = FALSE, !.failedUpdate = FALSE,
                    !.cacheUsed = useCache, !.killed = FALSE, !.preVisible = Visible, !.lockFault = FALSE,
                    !.exhausted = FALSE, !.cleanAtStart = g.clean, !.mustFail = (cc # "ok" \/ present = {}),
                    !.hist = IF RecordHist THEN Append(@, [t |-> "run", mode |-> mode, cache |-> useCache]) ELSE @]
  /\ UNCHANGED fsvars

(* context.rs:153-186: the lock is consulted only when use_cache is on; a lock that cannot be
   parsed is ignored *)
ReadLock ==
  /\ p.pc = "readlock"
  /\ \/ /\ p' = [p EXCEPT !.pc = "handlers", !.cached = IF p.cache /\ UsableLock(lock) THEN lock ELSE NoRef]
        /\ g' = g
     \/ \* the lock file exists but cannot be examined or read: an edit run gives up before anything else happens
        \* (a check run never needs the lock: it only warns, which is the first branch with nothing cached)
        /\ FaultOnLock /\ p.cache /\ p.mode = "edit" /\ g.faults < MaxFaults
        /\ g' = [g EXCEPT !.faults = @ + 1]
        /\ p' = [p EXCEPT !.pc = "exit2"]
  /\ UNCHANGED fsvars

(* main.rs:110-118 *)
InstallHandlers ==
  /\ p.pc = "handlers"
  /\ p' = [p EXCEPT !.pc = "discover", !.handlers = TRUE]
  /\ UNCHANGED <<fsvars, g>>

Finish(code) ==
  /\ p' = [Idle EXCEPT !.mode = p.mode, !.reported = p.reported, !.inserted = p.inserted, !.failure = p.failure]
  /\ g' = [g EXCEPT !.exit = code,
                    !.lastCheck = IF p.mode = "check" THEN [tree |-> Visible, reported |-> p.reported, exit |-> code]
                                  ELSE @,
                    !.clean = IF p.mode = "edit" THEN (code = 0) ELSE @]

FinishInterrupted(code) ==
  /\ p' = [Idle EXCEPT !.mode = p.mode, !.reported = p.reported, !.inserted = p.inserted, !.failure = p.failure]
  /\ g' = [g EXCEPT !.exit = code, !.interrupted = TRUE,
                    !.lastCheck = IF p.mode = "check" THEN [tree |-> Visible, reported |-> p.reported, exit |-> code]
                                  ELSE @,
                    !.clean = IF p.mode = "edit" THEN FALSE ELSE @]

(* finder.rs:71-145.  The walk hands out one entry at a time (WalkDir does not sort, so any order) and the stop flag is
   polled for every entry handed out - not once more when the directory is exhausted.  An empty set of in-scope files is
   an error in both modes. *)
Walked == {p.order[j] : j \in 1..Len(p.order)}
Remaining == present \ (Walked \cup p.hidden)
EnterPasses(o, st) ==
  p' = [p EXCEPT !.order = o, !.i = 1, !.stop = st,
                 !.pc = IF p.mode = "check" THEN "scan" ELSE IF p.cached # NoRef THEN "p2" ELSE "p1",
                 !.counter = IF p.cached # NoRef THEN p.cached ELSE 0,
                 !.start = IF p.cached # NoRef THEN p.cached ELSE 0]

DiscoverStart ==     \* the source directory is examined and opened
  /\ p.pc = "discover"
  /\ IF p.cc \in {"nosourcedir", "sourcedirfile"}
       THEN FinishInterrupted(XNonZero)
       ELSE p' = [p EXCEPT !.pc = "walk", !.order = <<>>] /\ g' = g
  /\ UNCHANGED fsvars

DiscoverEntry ==     \* the walk hands out the next in-scope file
  /\ p.pc = "walk" /\ Remaining # {}
  /\ IF p.stop
       THEN IF V_StopEndsDiscovery \/ p.order = <<>>
              THEN FinishInterrupted(XNonZero)
              ELSE EnterPasses(p.order, FALSE) /\ g' = g     \* as found in a seeded change: see DESIGN section 8
       ELSE \E f \in Remaining : p' = [p EXCEPT !.order = Append(@, f)] /\ g' = g
  /\ UNCHANGED fsvars

DiscoverDone ==      \* the directory is exhausted (the stop flag is not looked at here: the passes poll it first thing)
  /\ p.pc = "walk" /\ Remaining = {}
  /\ IF p.order = <<>> THEN FinishInterrupted(XNonZero) ELSE EnterPasses(p.order, p.stop) /\ g' = g
  /\ UNCHANGED fsvars

(* finder.rs:100-101: an entry that cannot be read is dropped (`filter_map(|e| e.ok())`) and the walk of that directory is
   over - without a message.  The files it would still have shown are not processed by this run, and a run that was
   shown at least one file goes on as if they did not exist (DESIGN section 10, O11). *)
DiscoverFault ==
  /\ p.pc = "walk" /\ FaultOnWalk /\ g.faults < MaxFaults
  /\ \E H \in SUBSET Remaining : p' = [p EXCEPT !.hidden = @ \cup H]
  /\ g' = [g EXCEPT !.faults = @ + 1]
  /\ UNCHANGED fsvars

Discover == DiscoverStart \/ DiscoverEntry \/ DiscoverDone \/ DiscoverFault

-----------------------------------------------------------------------------
(* Check mode: generate.rs:625-655 with CountMissingReferenceIdProcessor *)
ScanFile ==
  /\ p.pc = "scan"
  /\ IF p.stop
       THEN FinishInterrupted(IF V_InterruptedCheckFails THEN XNonZero ELSE 0)
       ELSE IF p.i > Len(p.order)
         THEN Finish(IF p.accMissing > 0 THEN XNonZero ELSE 0)
         ELSE LET f == p.order[p.i] IN
              /\ p' = [p EXCEPT !.i = @ + 1,
                                !.accMissing = IF f \in bad THEN @ ELSE @ + NumMissingIn(tree[f]),
                                !.reported = IF f \in bad THEN @ ELSE @ \cup {s.uid : s \in {t \in SlotsOf([x \in {f} |-> tree[f]]) : Missing(t)}}]
              /\ g' = g
  /\ UNCHANGED fsvars

-----------------------------------------------------------------------------
(* Edit mode, pass 1: generate.rs:175-227 (map/reduce for max ID and number missing) *)
Pass1File ==
  /\ p.pc = "p1"
  /\ IF p.stop
       THEN FinishInterrupted(XNonZero)
       ELSE IF p.i > Len(p.order)
         THEN IF p.accMissing = 0 THEN Finish(0)
              ELSE IF p.accMax >= MaxId /\ V_OverflowFails
                THEN /\ Finish(XNonZero) /\ TRUE
                ELSE LET nxt == IF p.accMax = 0 THEN 1 ELSE IF p.accMax >= MaxId THEN 0 ELSE p.accMax + 1
                     IN /\ p' = [p EXCEPT !.pc = "p2", !.i = 1, !.counter = nxt, !.start = nxt]
                        /\ g' = g
         ELSE LET f == p.order[p.i] IN
              /\ p' = [p EXCEPT !.i = @ + 1,
                                !.accMax = IF f \in bad THEN @ ELSE Max({@} \cup SeqRefs(tree[f])),
                                !.accMissing = IF f \in bad THEN @ ELSE @ + NumMissingIn(tree[f])]
              /\ g' = g
  /\ UNCHANGED fsvars

-----------------------------------------------------------------------------
(* Edit mode, pass 2: generate.rs:347-533 per file, orchestrated by process_references *)
LockValue == IF V_LockFromCounter THEN p.counter ELSE p.start + p.inserted

Pass2Next ==   \* loop head: poll stop, pick next file or finish the pass
  /\ p.pc = "p2"
  /\ IF p.stop
       THEN /\ g' = [g EXCEPT !.interrupted = TRUE]
            /\ p' = [p EXCEPT !.pc = IF V_LockOnAbort /\ p.cache THEN "lockabort" ELSE "exit2"]
       ELSE IF p.i > Len(p.order)
         THEN /\ p' = [p EXCEPT !.pc = IF p.cache THEN "locktrunc" ELSE "exitfinal"]
              /\ g' = g
         ELSE LET f == p.order[p.i] IN
              IF f \in bad \/ NumMissingIn(tree[f]) = 0
                THEN p' = [p EXCEPT !.i = @ + 1] /\ g' = g
                ELSE p' = [p EXCEPT !.pc = "create"] /\ g' = g
  /\ UNCHANGED fsvars

CanFault == g.faults < MaxFaults
Fault == g' = [g EXCEPT !.faults = @ + 1, !.failedUpdate = TRUE]

CreateTmp ==
  /\ p.pc = "create"
  /\ LET f == p.order[p.i] IN
     \/ /\ EnvTmp # "nocreate"
        /\ tmpdir' = tmpdir \cup {f}
        /\ p' = [p EXCEPT !.pc = "write", !.cur = [data |-> tree[f], pos |-> 0, dur |-> 0, created |-> 0, err |-> FALSE]]
        /\ g' = g
     \/ /\ \/ CanFault /\ Fault
           \/ EnvTmp = "nocreate" /\ g' = [g EXCEPT !.failedUpdate = TRUE]
        /\ p' = [p EXCEPT !.pc = "p2", !.i = @ + 1, !.failure = TRUE]
        /\ UNCHANGED tmpdir
  /\ UNCHANGED <<present, bad, tree, upto, lock>>

(* WriteSlot: copy-through up to the next statement and, if it lacks a reference, the token.
   pos counts units accepted into the write cache; dur counts units handed to write(2). *)
WriteSlot ==
  /\ p.pc = "write"
  /\ LET c == p.cur  n == Len(c.data) IN
     IF c.err
       THEN \* a deferred write error surfaces at the next write_all: failure, temp file dropped
            /\ p' = [p EXCEPT !.pc = "p2", !.i = @ + 1, !.failure = TRUE, !.cur = Null]
            /\ tmpdir' = tmpdir \ {p.order[p.i]}
            /\ g' = g
       ELSE IF c.pos < n
         THEN LET j == c.pos + 1
                  s == c.data[j]
                  give == Missing(s)
                  id == p.counter
                  exhausted == give /\ V_OverflowFails /\ p.counter >= MaxId
                  nc == IF give THEN (IF p.counter >= MaxId THEN 0 ELSE p.counter + 1) ELSE p.counter
              IN IF exhausted
                   THEN /\ p' = [p EXCEPT !.pc = "p2", !.i = @ + 1, !.failure = TRUE, !.cur = Null]
                        /\ tmpdir' = tmpdir \ {p.order[p.i]}
                        /\ g' = [g EXCEPT !.failedUpdate = TRUE, !.exhausted = TRUE]
                   ELSE
                 /\ p' = [p EXCEPT !.cur = [c EXCEPT !.pos = j,
                                                     !.data = IF give THEN [c.data EXCEPT ![j].ref = id] ELSE c.data,
                                                     !.created = IF give THEN @ + 1 ELSE @],
                                   !.counter = nc]
                 /\ UNCHANGED <<tmpdir, g>>
         ELSE \* tail after the last statement
              /\ p' = [p EXCEPT !.cur = [c EXCEPT !.pos = n + 1], !.pc = IF V_FlushBeforeRename THEN "flush" ELSE "rename"]
              /\ UNCHANGED <<tmpdir, g>>
  /\ UNCHANGED <<present, bad, tree, upto, lock>>

(* The write cache drains when full: at any time during writing, some prefix becomes durable. *)
Drain ==
  /\ p.pc \in {"write", "flush"} /\ p.cur # Null /\ ~p.cur.err /\ p.cur.dur < p.cur.pos
  /\ \/ /\ \E d \in p.cur.dur..p.cur.pos : p' = [p EXCEPT !.cur.dur = d]     \* d = dur: a write that completes no unit
        /\ g' = g
     \/ /\ CanFault /\ Fault /\ p' = [p EXCEPT !.cur.err = TRUE]
  /\ UNCHANGED fsvars

FlushTmp ==
  /\ p.pc = "flush"
  /\ \/ /\ ~p.cur.err /\ p' = [p EXCEPT !.cur.dur = p.cur.pos, !.pc = "rename"] /\ UNCHANGED <<tmpdir, g>>
     \/ /\ (p.cur.err \/ (CanFault /\ p.cur.dur < p.cur.pos))
        /\ IF p.cur.err THEN g' = g ELSE Fault
        /\ p' = [p EXCEPT !.pc = "p2", !.i = @ + 1, !.failure = TRUE, !.cur = Null]
        /\ tmpdir' = tmpdir \ {p.order[p.i]}
  /\ UNCHANGED <<present, bad, tree, upto, lock>>

NewIds(f, data, n) == {<<data[j].ref, data[j].uid>> : j \in {k \in 1..Len(data) : k <= n /\ Missing(tree[f][k])}}

RenameTmp ==
  /\ p.pc = "rename"
  /\ LET f == p.order[p.i]  c == p.cur IN
     \/ /\ EnvTmp # "norename"
        /\ tree' = [tree EXCEPT ![f] = c.data]
        /\ upto' = [upto EXCEPT ![f] = c.dur]
        /\ tmpdir' = tmpdir \ {f}
        /\ g' = [g EXCEPT !.written = @ \cup NewIds(f, c.data, c.dur)]
        /\ p' = [p EXCEPT !.pc = "drop", !.inserted = @ + c.created]
     \/ /\ \/ CanFault /\ Fault
           \/ EnvTmp = "norename" /\ g' = [g EXCEPT !.failedUpdate = TRUE]
        /\ p' = [p EXCEPT !.pc = "drop", !.failure = TRUE, !.inserted = @ + c.created, !.cur = [c EXCEPT !.err = TRUE]]
        /\ UNCHANGED <<tree, upto, tmpdir>>
  /\ UNCHANGED <<present, bad, lock>>

(* Drop: unlink the temporary file if it still exists; without an explicit flush the write cache of
   the descriptor, which now refers to the renamed inode, is written out here and errors are ignored. *)
DropTmp ==
  /\ p.pc = "drop"
  /\ LET f == p.order[p.i]  c == p.cur IN
     /\ tmpdir' = tmpdir \ {f}
     /\ IF f \notin tmpdir /\ ~c.err /\ c.dur < c.pos
          THEN \/ /\ upto' = [upto EXCEPT ![f] = c.pos]
                  /\ g' = [g EXCEPT !.written = @ \cup {<<c.data[j].ref, c.data[j].uid>> : j \in {k \in 1..Len(c.data) : Missing(g.pre[f][k])}}]
               \/ /\ CanFault /\ g' = [g EXCEPT !.faults = @ + 1, !.failedUpdate = TRUE] /\ UNCHANGED upto   \* error swallowed
          ELSE UNCHANGED <<upto, g>>
     /\ p' = [p EXCEPT !.pc = "p2", !.i = @ + 1, !.cur = Null]
  /\ UNCHANGED <<present, bad, tree, lock>>

(* context.rs:195-229: std::fs::write = open(O_TRUNC) then write; failures are only logged *)
LockTrunc ==
  /\ p.pc \in {"locktrunc", "lockabort"}
  /\ \/ lock' = LCorrupt /\ p' = [p EXCEPT !.pc = IF p.pc = "locktrunc" THEN "lockwrite" ELSE "lockwriteabort"] /\ g' = g
     \/ /\ FaultOnLock /\ CanFault /\ g' = [g EXCEPT !.faults = @ + 1, !.lockFault = TRUE] /\ UNCHANGED lock
        /\ p' = [p EXCEPT !.pc = IF p.pc = "locktrunc" THEN "exitfinal" ELSE "exit2"]
  /\ UNCHANGED <<present, bad, tree, upto, tmpdir>>

LockWrite ==
  /\ p.pc \in {"lockwrite", "lockwriteabort"}
  /\ \/ lock' = LockValue /\ g' = g
     \/ FaultOnLock /\ CanFault /\ g' = [g EXCEPT !.faults = @ + 1, !.lockFault = TRUE] /\ UNCHANGED lock
  /\ p' = [p EXCEPT !.pc = IF p.pc = "lockwrite" THEN "exitfinal" ELSE "exit2"]
  /\ UNCHANGED <<present, bad, tree, upto, tmpdir>>

Exit ==
  /\ p.pc \in {"exitfinal", "exit2"}
  /\ IF p.pc = "exit2" THEN FinishInterrupted(XNonZero)
     ELSE Finish(IF V_FailureConsulted /\ p.failure THEN XNonZero ELSE 0)
  /\ UNCHANGED fsvars

-----------------------------------------------------------------------------
(* Environment *)
Dead(code) ==
  /\ p' = [Idle EXCEPT !.mode = p.mode, !.reported = p.reported]
  /\ g' = [g EXCEPT !.exit = code, !.killed = TRUE, !.clean = IF p.mode = "edit" THEN FALSE ELSE @, !.lastCheck = Null]

Signal(s) ==
  /\ p.pc # "idle" /\ g.sigs < MaxSignals
  /\ IF p.handlers /\ s \in V_Handled
       THEN /\ p' = [p EXCEPT !.stop = TRUE]
            /\ g' = [g EXCEPT !.sigs = @ + 1, !.sigAfterHandlers = TRUE]
       ELSE /\ p' = [Idle EXCEPT !.mode = p.mode, !.reported = p.reported]
            /\ g' = [g EXCEPT !.sigs = @ + 1, !.exit = XSignaled, !.killed = TRUE,
                              !.clean = IF p.mode = "edit" THEN FALSE ELSE @,
                              !.lastCheck = Null, !.sigAfterHandlers = p.handlers]
  /\ UNCHANGED fsvars

Kill ==
  /\ AllowKill /\ p.pc # "idle"
  /\ Dead(XKilled)
  /\ UNCHANGED fsvars

(* Developer edits between runs *)
DevAdd(f) ==
  /\ p.pc = "idle" /\ g.devs < MaxDev /\ f \in present \ bad /\ Len(tree[f]) < MaxSlots /\ Complete(f)
  /\ tree' = [tree EXCEPT ![f] = Append(@, [uid |-> g.nextUid, ref |-> NoRef, kind |-> "plain"])]
  /\ upto' = [upto EXCEPT ![f] = @ + 1]
  /\ g' = [g EXCEPT !.devs = @ + 1, !.nextUid = @ + 1, !.clean = FALSE, !.lastCheck = Null, !.exit = XNone,
                    !.hist = IF RecordHist THEN Append(@, [t |-> "add", f |-> f, uid |-> g.nextUid]) ELSE @]
  /\ UNCHANGED <<present, bad, lock, tmpdir, p>>

DevDel(f, j) ==
  /\ p.pc = "idle" /\ g.devs < MaxDev /\ f \in present \ bad /\ j \in 1..Len(tree[f]) /\ Complete(f)
  /\ tree' = [tree EXCEPT ![f] = SubSeq(@, 1, j - 1) \o SubSeq(@, j + 1, Len(@))]
  /\ upto' = [upto EXCEPT ![f] = @ - 1]
  /\ g' = [g EXCEPT !.devs = @ + 1, !.clean = FALSE, !.lastCheck = Null, !.exit = XNone,
                    !.hist = IF RecordHist THEN Append(@, [t |-> "del", f |-> f, uid |-> tree[f][j].uid]) ELSE @]
  /\ UNCHANGED <<present, bad, lock, tmpdir, p>>

DevDelFile(f) ==
  /\ p.pc = "idle" /\ g.devs < MaxDev /\ f \in present /\ Cardinality(present) > 1
  /\ present' = present \ {f} /\ bad' = bad \ {f}
  /\ tree' = [tree EXCEPT ![f] = <<>>] /\ upto' = [upto EXCEPT ![f] = 1]
  /\ g' = [g EXCEPT !.devs = @ + 1, !.clean = FALSE, !.lastCheck = Null, !.exit = XNone,
                    !.hist = IF RecordHist THEN Append(@, [t |-> "delfile", f |-> f]) ELSE @]
  /\ UNCHANGED <<lock, tmpdir, p>>

DevAddFile(f) ==
  /\ p.pc = "idle" /\ g.devs < MaxDev /\ f \notin present
  /\ present' = present \cup {f}
  /\ tree' = [tree EXCEPT ![f] = <<[uid |-> g.nextUid, ref |-> NoRef, kind |-> "plain"]>>]
  /\ upto' = [upto EXCEPT ![f] = 2]
  /\ g' = [g EXCEPT !.devs = @ + 1, !.nextUid = @ + 1, !.clean = FALSE, !.lastCheck = Null, !.exit = XNone,
                    !.hist = IF RecordHist THEN Append(@, [t |-> "addfile", f |-> f, uid |-> g.nextUid]) ELSE @]
  /\ UNCHANGED <<bad, lock, tmpdir, p>>

ProcNext ==
  \/ ReadLock \/ InstallHandlers \/ Discover \/ ScanFile \/ Pass1File \/ Pass2Next
  \/ CreateTmp \/ WriteSlot \/ Drain \/ FlushTmp \/ RenameTmp \/ DropTmp \/ LockTrunc \/ LockWrite \/ Exit

Next ==
  \/ \E m \in Modes, c \in CacheChoices, cc \in ConfigClasses : StartRun(m, c, cc)
  \/ ProcNext
  \/ \E s \in {"INT", "TERM"} : Signal(s)
  \/ Kill
  \/ \E f \in Files : DevAdd(f) \/ DevDelFile(f) \/ DevAddFile(f) \/ \E j \in 1..MaxSlots : DevDel(f, j)

Spec == Init /\ [][Next]_vars
FairSpec == Spec /\ WF_vars(ProcNext)

-----------------------------------------------------------------------------
AtEnd == p.pc = "idle" /\ g.exit # XNone
Ended(mode) == AtEnd /\ g.mode = mode
NormalExit == g.exit \in {0, XNonZero}

(* C07 *)
AtomicFiles == \A f \in present : Complete(f)
(* C08 *)
NoTmpLeft == (AtEnd /\ NormalExit) => tmpdir = {}
FailureMeansNonZero == (Ended("edit") /\ g.exit = 0) => ~g.failedUpdate
ExitZeroDone == (Ended("edit") /\ g.exit = 0) => ~AnyMissing(Visible)
(* C02 *)
InvLockDominates == (AtEnd /\ g.cacheUsed /\ g.mode = "edit") => LockDominates(lock, g.written)
InvNoReuse == NoReuse(g.written)
(* an environment whose TMPDIR cannot be used never lets a run change a source file, and such a run never reports success
   when there was something to insert (FailureMeansNonZero covers the exit status) *)
EnvBlocksUpdates == EnvTmp # "usable" => g.written = {}
IdleLockDominates == p.pc = "idle" => LockDominates(lock, g.written)
(* C18 *)
InterruptedCheckNeverPasses == (Ended("check") /\ g.interrupted /\ AnyMissing(Visible)) => g.exit # 0
ExitsByItself == (AtEnd /\ g.sigAfterHandlers) => g.exit # XSignaled
StopMeansNonZeroOrDone == (AtEnd /\ g.sigAfterHandlers /\ g.exit = 0) => ~AnyMissing(Visible)
(* C05 *)
InvVerdictExact == (Ended("check") /\ NormalExit /\ ~g.interrupted) =>
                      VerdictExact(Visible, g.exit, present \ bad # {})
ReportedExact == (Ended("check") /\ NormalExit /\ ~g.interrupted) => p.reported = MissingUids(Visible)
CheckPredictsEdit == (Ended("edit") /\ g.exit = 0 /\ ~g.interrupted /\ g.lastCheck # Null
                        /\ g.lastCheck.tree = g.preVisible) =>
                        {pr[2] : pr \in NewPairs(g.preVisible, Visible)} = g.lastCheck.reported
(* C01 *)
InvUniqueInRange == (Ended("edit")) => UniqueInRange(g.preVisible, Visible, g.preLock, g.cacheUsed, MaxId)
InvExistingKept == (g.runs > 0 /\ (p.pc # "idle" \/ g.exit # XNone)) => ExistingKept(g.preVisible, Visible)
(* C06 *)
FixpointCheck == (Ended("check") /\ g.cleanAtStart /\ NormalExit /\ ~g.interrupted) => g.exit = 0
FixpointEdit == (Ended("edit") /\ g.cleanAtStart /\ NormalExit) => (tree = g.pre /\ lock = g.preLock)
(* C16 *)
CacheOffLockUntouched == (p.pc # "idle" /\ ~p.cache) => lock = g.preLock
ErrorExitChangesNothing == (AtEnd /\ g.mustFail /\ ~g.killed) => (g.exit = XNonZero /\ tree = g.pre /\ lock = g.preLock)
CorruptLockFallsBack == (Ended("edit") /\ g.cacheUsed /\ g.preLock = LCorrupt) =>
                          \A x \in Ids(NewPairs(g.preVisible, Visible)) : \A r \in RefsOf(g.preVisible) : x > r
CacheDefaultOn == (Ended("edit") /\ g.exit = 0 /\ g.cacheUsed /\ NewPairs(g.preVisible, Visible) # {}) =>
                          (lock >= 0 /\ LockDominates(lock, g.written))
(* C04 *)
CheckReadOnly == [][g.mode = "check" /\ p.pc # "idle" => UNCHANGED fsvars]_vars
(* C18 liveness: a stop request leads to termination *)
StopLeadsToExit == (p.stop) ~> (p.pc = "idle")
Terminates == (p.pc # "idle") ~> (p.pc = "idle")
=============================================================================
