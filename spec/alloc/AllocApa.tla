------------------------------- MODULE AllocApa -------------------------------
(* Apalache instance: the inductive step starts from an ARBITRARY state satisfying IndInv (sets of up to 6 arbitrary
   integers), so the result is not bounded by any MaxId. *)
EXTENDS Alloc, Apalache

IndInit ==
  /\ used = Gen(6)
  /\ written = Gen(6)
  /\ lock = Gen(1)
  /\ counter = Gen(1)
  /\ inRun = Gen(1)
  /\ IndInv
=============================================================================
