SPECIFICATION Spec
INVARIANT IndInv Safety
CONSTRAINT Bound
CHECK_DEADLOCK FALSE
