------------------------------ MODULE AllocKill ------------------------------
(* The same allocator with process death inside a run: the run ends WITHOUT the lock being written.  IndInv is then not
   inductive and LockDominates fails (known finding F-C02-kill-between-rename-and-lock-write): Apalache must report a
   counterexample for this module - a regression test that the inductive proof is not vacuous. *)
EXTENDS Alloc, Apalache

Kill == /\ inRun /\ inRun' = FALSE /\ UNCHANGED <<used, written, lock, counter>>
NextK == Next \/ Kill

IndInit ==
  /\ used = Gen(6)
  /\ written = Gen(6)
  /\ lock = Gen(1)
  /\ counter = Gen(1)
  /\ inRun = Gen(1)
  /\ IndInv
=============================================================================
