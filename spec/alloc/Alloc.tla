-------------------------------- MODULE Alloc --------------------------------
(***************************************************************************)
(* The reference-ID allocator in isolation, over UNBOUNDED naturals        *)
(* (C01/C02 without the small MaxId of BreadlogRun).                        *)
(*                                                                         *)
(*   used     IDs currently carried by recognised statements in the tree   *)
(*   written  ghost: IDs the tool has ever written                          *)
(*   lock     -1 (no lock file yet) or the recorded next ID                 *)
(*   counter  the shared counter of the running edit pass                   *)
(*   inRun    an edit run is in progress                                    *)
(*                                                                         *)
(* A run starts from the lock if there is one (generate.rs: cached next     *)
(* ID), otherwise from max(used) + 1 (first pass), hands out counter,       *)
(* counter + 1, ... and records the counter in the lock on every way out    *)
(* of the insert pass.  Between runs the developer deletes statements.      *)
(* The lock file is in use and kept; process death between a rename and     *)
(* the lock write is the known finding F-C02-kill-* and is not an action    *)
(* here (with it, IndInv is not inductive - see AllocKill below).           *)
(***************************************************************************)
EXTENDS Integers, FiniteSets

VARIABLES
  \* @type: Set(Int);
  used,
  \* @type: Set(Int);
  written,
  \* @type: Int;
  lock,
  \* @type: Int;
  counter,
  \* @type: Bool;
  inRun

vars == <<used, written, lock, counter, inRun>>

Init ==
  /\ used \in SUBSET (0..3)
  /\ written = {}
  /\ lock = -1
  /\ counter = 0
  /\ inRun = FALSE

StartCached ==
  /\ ~inRun /\ lock >= 0
  /\ counter' = lock /\ inRun' = TRUE
  /\ UNCHANGED <<used, written, lock>>

StartScan ==
  /\ ~inRun /\ lock < 0
  /\ \/ used = {} /\ counter' = 1
     \/ \E m \in used : (\A u \in used : u <= m) /\ counter' = IF m = 0 THEN 1 ELSE m + 1
  /\ inRun' = TRUE
  /\ UNCHANGED <<used, written, lock>>

Assign ==
  /\ inRun
  /\ used' = used \union {counter}
  /\ written' = written \union {counter}
  /\ counter' = counter + 1
  /\ UNCHANGED <<lock, inRun>>

(* every way out of the insert pass (success, failed file, stop request) records the counter *)
EndRun ==
  /\ inRun
  /\ lock' = counter /\ inRun' = FALSE
  /\ UNCHANGED <<used, written, counter>>

DevDelete ==
  /\ ~inRun
  /\ \E u \in used : used' = used \ {u}
  /\ UNCHANGED <<written, lock, counter, inRun>>

Next == StartCached \/ StartScan \/ Assign \/ EndRun \/ DevDelete
Spec == Init /\ [][Next]_vars

-----------------------------------------------------------------------------
(* C02 *)
LockDominates == (~inRun /\ written /= {}) => (lock >= 0 /\ \A w \in written : w < lock)
(* an ID handed out now has never been written before *)
FreshNext == inRun => counter \notin written
(* C01 (no lock used): what is handed out exceeds everything in the tree *)
AboveUsed == (inRun /\ lock < 0) => \A u \in used : u < counter

IndInv ==
  /\ counter >= 0 /\ lock >= -1
  /\ \A w \in written : w >= 0
  /\ \A u \in used : u >= 0
  /\ (written /= {} /\ ~inRun) => (lock >= 0 /\ \A w \in written : w < lock)
  /\ inRun => (\A w \in written : w < counter)
  /\ (inRun /\ lock >= 0) => counter >= lock
  /\ (inRun /\ lock < 0) => (\A u \in used : u < counter)
  /\ (lock < 0 /\ ~inRun) => written = {}

Safety == LockDominates /\ FreshNext /\ AboveUsed
=============================================================================
