------------------------------ MODULE LockText ------------------------------
(***************************************************************************)
(* C16 (and the precondition of C01/C02): what is in Breadlog.lock, and    *)
(* when does a run "start from it"?                                        *)
(*                                                                         *)
(* The lock file is a YAML document with one key, next_reference_id.  A    *)
(* file is modelled as a sequence of LINES over the kinds below plus the   *)
(* line-ending style and whether the last line is terminated.  This is the *)
(* text a developer, a merge tool or an editor can leave behind, not only  *)
(* what Breadlog writes itself.                                            *)
(*                                                                         *)
(*   "header"     a comment line (# ...), as Breadlog writes two of         *)
(*   "blank"      an empty line                                            *)
(*   "value"      next_reference_id: N         (N: see Values)             *)
(*   "valuecmt"   next_reference_id: N # note  (trailing comment)          *)
(*   "valuesp"    next_reference_id:   N       (extra blanks, trailing     *)
(*                                              blanks)                     *)
(*   "otherkey"   some_other_key: 1                                        *)
(*   "garbage"    text that is not a YAML mapping entry                    *)
(*   "conflict"   <<<<<<< HEAD   (a merge conflict marker)                 *)
(*   "latin1cmt"  a comment line with a Latin-1 byte (the file is not UTF-8)  *)
(*   "binary"     bytes that are no text at all                            *)
(*   "longtail"   a long comment line (makes the file longer than anything *)
(*                Breadlog writes: an in-place rewrite would leave a tail) *)
(*                                                                         *)
(* Reading(f): "value" - the run starts from N;  "ignored" - the lock is    *)
(* not usable, the code is scanned;  "any" - the property text does not    *)
(* decide (unknown extra keys, duplicate keys, numbers spelled otherwise). *)
(***************************************************************************)
EXTENDS Integers, Sequences, FiniteSets, TLC, Json

CONSTANTS LineKinds, MaxLines, Values, Endings, Finals

ValueLines == {"value", "valuecmt", "valuesp"}
Harmless   == {"header", "blank", "longtail"}
Breaking   == {"garbage", "conflict", "latin1cmt", "binary"}   \* the last two are not valid UTF-8: not parsable either

(* classes of N: "small" (7), "max" (4294967295), "over" (4294967296), "neg" (-7), "word" (abc), "empty" (nothing after
   the colon), "quoted" ("7"), "plus" (+7), "hex" (0x7), "float" (7.5), "zero" (0), "lead0" (007) *)
Decimal(v)   == v \in {"small", "max"}
Unusable(v)  == v \in {"over", "neg", "word", "empty", "float", "zero"}   \* 0: IDs start at 1, a recorded 0 is ignored
Undecided(v) == v \in {"quoted", "plus", "hex", "lead0"}

File == [lines : UNION {[1..n -> LineKinds] : n \in 0..MaxLines}, v : Values, ending : Endings, final : Finals]

NumValueLines(f) == Cardinality({i \in 1..Len(f.lines) : f.lines[i] \in ValueLines})
Has(f, K) == \E i \in 1..Len(f.lines) : f.lines[i] \in K

Reading(f) ==
  IF Has(f, Breaking) THEN "ignored"
  ELSE IF NumValueLines(f) = 0 THEN "ignored"             \* empty file, comments only, other keys only
  ELSE IF NumValueLines(f) > 1 THEN "any"                 \* duplicate key
  ELSE IF Has(f, {"otherkey"}) THEN "any"                 \* unknown extra key
  ELSE IF Decimal(f.v) THEN "value"
  ELSE IF Unusable(f.v) THEN "ignored"
  ELSE "any"

(* only files in which the value class matters once: the class is irrelevant without a value line *)
Canonical(f) == NumValueLines(f) = 0 => f.v = "small"

VARIABLES f
vars == <<f>>
Init == f \in {x \in File : Canonical(x)}
Next == UNCHANGED vars
Spec == Init /\ [][Next]_vars

(* consistency of the definition with the prose *)
LayoutIrrelevant ==     \* comments, blank lines, line endings and the final newline never decide
  LET core == SelectSeq(f.lines, LAMBDA k : k \notin Harmless) IN
  Reading(f) = Reading([f EXCEPT !.lines = core, !.ending = "lf", !.final = "nl"])
WhatBreadlogWrites ==   \* the file Breadlog writes itself is read back as its value
  Reading([lines |-> <<"header", "header", "value">>, v |-> "small", ending |-> "lf", final |-> "nl"]) = "value"
EmptyIsIgnored == Reading([lines |-> <<>>, v |-> "small", ending |-> "lf", final |-> "nl"]) = "ignored"

Dump == PrintT("LOCK|" \o ToJson([f |-> f, reading |-> Reading(f)]))
=============================================================================
