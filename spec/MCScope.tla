------------------------------- MODULE MCScope -------------------------------
EXTENDS Scope
E(id, kind, ext, inside, depth) == [id |-> id, kind |-> kind, ext |-> ext, inside |-> inside, depth |-> depth]
U == {
  E("src/a.rs", "file", "rs", TRUE, 0),
  E("src/sub/b.rs", "file", "rs", TRUE, 1),
  E("src/sub/deep/c.rs", "file", "rs", TRUE, 2),
  E("src/upper.RS", "file", "RS", TRUE, 0),
  E("src/long.rsx", "file", "rsx", TRUE, 0),
  E("src/back.rs.bak", "file", "bak", TRUE, 0),
  E("src/noext", "file", "", TRUE, 0),
  E("src/.rs", "file", "", TRUE, 0),
  E("src/t.txt", "file", "txt", TRUE, 0),
  E("src/a.b.rs", "file", "rs", TRUE, 0),
  E("src/dir.rs", "dir", "rs", TRUE, 0),
  E("src/dir.rs/inner.rs", "file", "rs", TRUE, 1),
  E("src/link_in.rs", "symfile", "rs", TRUE, 0),
  E("src/link_out.rs", "symfile", "rs", TRUE, 0),
  E("src/linkdir_in", "symdir", "", TRUE, 0),
  E("src/linkdir_out", "symdir", "", TRUE, 0),
  E("src/api.v2/h.rs", "file", "rs", TRUE, 1),
  E("src/gen.d/deep/t.rs", "file", "rs", TRUE, 2),
  E("src/.hid/h.rs", "file", "rs", TRUE, 1),
  E("src/a.rs.tmp", "file", "tmp", TRUE, 0),
  E("src/sub/b.rs.tmp", "symfile", "tmp", TRUE, 1),
  E("src/a.rs~", "file", "rs~", TRUE, 0),
  E("src/sp ace.rs", "file", "rs", TRUE, 0),
  E("src/x.inc", "file", "inc", TRUE, 0),
  E("src/readonly.rs", "file", "rs", TRUE, 0),        \* mode 0444: replacing a file needs a writable directory, not a writable file
  E("src/hardlinked.rs", "file", "rs", TRUE, 0),      \* has a second hard link outside the source directory
  E("src/pipe.rs", "fifo", "rs", TRUE, 0),            \* a named pipe nobody writes to: not a regular file
  E("src/sub/sock.rs", "socket", "rs", TRUE, 1),      \* a socket: not a regular file
  E("outside/o.rs", "file", "rs", FALSE, 0),
  E("top.rs", "file", "rs", FALSE, 0),
  E("srcx/q.rs", "file", "rs", FALSE, 0) }
ExtListsAll == {<<"default">>, <<"rs">>, <<"rs", "txt">>, <<"RS">>, <<"bak">>, <<"rs", "inc">>, <<"txt", "rs", "inc">>, <<"rs", "rs">>, <<"rs", "RS">>}
TmpBoth == {"same", "otherfs"}
TmpSame == {"same"}
SourceDirsAll == {"rel", "dotrel", "abs", "updown", "hidden"}
ExtListsFew == {<<"default">>, <<"rs", "txt">>}
SourceDirsFew == {"rel", "updown"}
InvocationsFew == {<<"cfgdir", "bare">>, <<"parent", "rel">>, <<"root", "abs">>}
InvocationsAll == {<<"cfgdir", "bare">>, <<"cfgdir", "rel">>, <<"cfgdir", "abs">>, <<"parent", "rel">>, <<"parent", "abs">>,
                   <<"root", "rel">>, <<"root", "abs">>, <<"cfgdir", "linkcfg">>, <<"parent", "linkcfg">>}
=============================================================================
