\* Implementation-level trace validation: the same for histories embedded at the top of the ID range (abstract MaxId = 9 stands for u32::MAX)
CONSTANTS
  NFiles = 5  MaxSlots = 100  MaxId = 9
  InitRefs = {1}  InitKinds = {"plain"}  InitLocks = {1}
  Modes = {"check", "edit"}  CacheChoices = {TRUE, FALSE}
  AllowBad = TRUE
  MaxRuns = 1000000  MaxFaults = 100  MaxDev = 0  MaxSignals = 100
  ConfigClasses = {"ok"}  AllowEmpty = FALSE
  RecordHist = FALSE
  AllowKill = TRUE  FaultOnLock = TRUE  FaultOnWalk = TRUE
  V_FlushBeforeRename = TRUE  V_FailureConsulted = TRUE  V_LockOnAbort = TRUE
  V_LockFromCounter = TRUE  V_Handled = {"TERM", "INT"}  V_InterruptedCheckFails = TRUE  V_StopEndsDiscovery = TRUE
  V_OverflowFails = TRUE  EnvTmp = "usable"
SPECIFICATION TSpec
CHECK_DEADLOCK FALSE
