------------------------------ MODULE MCRefToken ------------------------------
(* Seeds for RefToken: the proper prefixes of "[ref: " and the prefix followed by numbers around the u32 boundary. *)
EXTENDS RefToken

Alpha13 == {"[", "r", "e", "f", ":", "sp", "]", "0", "1", "9", "d", "R", "x"}
(* other spellings of a number that integer parsers tend to accept: signs, digit separators, a decimal point, an
   exponent, full-width digits *)
AlphaNumber == {"+", "-", "_", ".", "e", "0", "5", "]", "sp", "dfw"}
SeedNumber == {Prefix, Prefix \o <<"5">>}
(* the separator after the colon is one U+0020; other blanks a pattern class such as \s would admit *)
AlphaBlank == {"sp", "tab", "nbsp", "ideosp", "5", "]"}
SeedColon == {<<"[", "r", "e", "f", ":">>}
AlphaBoundary == {"]", "0", "5", "6", "sp", "x"}
SeedPrefixes == {SubSeq(Prefix, 1, i) : i \in 0..6}
BoundaryNumbers == {
  <<"0">>,
  <<"1">>,
  <<"9">>,
  <<"0", "0">>,
  <<"0", "1">>,
  <<"1", "0">>,
  <<"4", "2", "9", "4", "9", "6", "7", "2", "9">>,
  <<"0", "0", "0", "0", "0", "0", "0", "0", "0", "0">>,
  <<"0", "0", "0", "0", "0", "0", "0", "0", "0", "1">>,
  <<"1", "0", "0", "0", "0", "0", "0", "0", "0", "0">>,
  <<"3", "9", "9", "9", "9", "9", "9", "9", "9", "9">>,
  <<"4", "1", "9", "4", "9", "6", "7", "2", "9", "5">>,
  <<"4", "2", "9", "4", "9", "6", "7", "2", "8", "9">>,
  <<"4", "2", "9", "4", "9", "6", "7", "2", "9", "0">>,
  <<"4", "2", "9", "4", "9", "6", "7", "2", "9", "4">>,
  <<"4", "2", "9", "4", "9", "6", "7", "2", "9", "5">>,
  <<"4", "2", "9", "4", "9", "6", "7", "2", "9", "6">>,
  <<"4", "2", "9", "4", "9", "6", "7", "2", "9", "9">>,
  <<"4", "2", "9", "4", "9", "6", "7", "3", "0", "5">>,
  <<"4", "2", "9", "4", "9", "6", "7", "3", "9", "5">>,
  <<"4", "3", "9", "4", "9", "6", "7", "2", "9", "5">>,
  <<"5", "0", "0", "0", "0", "0", "0", "0", "0", "0">>,
  <<"9", "9", "9", "9", "9", "9", "9", "9", "9", "9">>,
  <<"0", "0", "0", "0", "0", "0", "0", "0", "0", "0", "1">>,
  <<"0", "4", "2", "9", "4", "9", "6", "7", "2", "9", "5">>,
  <<"4", "2", "9", "4", "9", "6", "7", "2", "9", "5", "0">> }
(* a valid token that does not sit at offset 0: after white space, a comment-like text or another character *)
Shifts == {<<"sp">>, <<"tab">>, <<"nl">>, <<"bc">>, <<"lc">>, <<"x">>, <<"[">>, <<"sp", "sp">>, <<"bc", "sp">>}
SeedShifted == {s \o Prefix \o <<"1", "2", "]">> : s \in Shifts} \cup {s \o Prefix \o <<"4","2","9","4","9","6","7","2","9","5","]">> : s \in Shifts}
AlphaShifted == {"sp", "x"}
SeedBoundary == {Prefix \o b : b \in BoundaryNumbers}
=============================================================================
