------------------------------ MODULE LogStmt ------------------------------
(***************************************************************************)
(* A log statement as a FEATURE RECORD and the reference semantics of      *)
(* Breadlog on it (properties C05, C06, C09, C10, C11, C13, C14).          *)
(*                                                                         *)
(*   head     how the macro is named: "bare" (info!), "qualified"          *)
(*            (log::info!), or a decoy: "unconfigured" (a name that is not *)
(*            configured), "upper" (INFO!), "shortmod" (l::info!),         *)
(*            "crateprefixed" (crate::log::info!),                          *)
(*            configured), "prefix"/"suffix" (a configured name inside a   *)
(*            longer identifier), "othermod" (other::info!), "submod"      *)
(*            (log::sub::info!), "noliteral" (info!(x)), "noargs" (info!())*)
(*            "linecomment"/"blockcomment"/"doccomment" (commented out),   *)
(*            "instring" (macro-like text inside a string literal)         *)
(*   target   "none" or a class of target literal                          *)
(*   kvs      sequence of key-value SHAPES in source order; shapes whose    *)
(*            name starts with "ref" are the `ref` key                      *)
(*   msg      class of the message literal's content                       *)
(*   dir      "none" | "ignore" | "nokvp": directive comment on the nearest *)
(*            non-blank line above                                         *)
(*   trailing, layout, context : presentation features.  The semantics     *)
(*            below never reads them: that IS the claim of C10 ("layout    *)
(*            makes no difference"); the replay renders every combination  *)
(*            TLC enumerates and holds the binary to the same outcome.     *)
(*                                                                         *)
(* Outcome(s, mode) is what Breadlog must conclude about the statement,    *)
(* Place(s, mode) where a missing reference goes, Edit(s, mode, id) the    *)
(* statement after an edit run.  Accepts / Record transcribe the log       *)
(* crate's macro grammar and the record a statement emits (C09).           *)
(***************************************************************************)
EXTENDS Integers, Sequences, FiniteSets, TLC, Json

CONSTANTS Heads, Targets, KvShapes, MaxKv, MsgClasses, Dirs, Trailings, Layouts, Contexts, Modes,
          NewId,              \* the ID an edit hands out in this model
          V_InsertPoint       \* "after_target" (required) | "args_start" (as found in the pinned commit)

NoRef == -1

RealHeads == {"bare", "qualified"}
IsRefShape(k) == k \in {"ref=7", "ref=0", "ref=max", "ref=07", "ref=x", "ref:?=x", "ref=over", "ref=str", "ref=neg",
                        "ref=hex", "ref=suffixed", "ref=strkey", "ref=strkeycmt"}
(* a plain decimal literal that fits u32; the property statement fixes nothing about other literal forms *)
RefLiteralValue(k) == CASE k = "ref=7" -> 7 [] k = "ref=0" -> 0 [] k = "ref=max" -> 99 [] k = "ref=07" -> 7 [] k \in {"ref=strkey", "ref=strkeycmt"} -> 7
                        [] OTHER -> NoRef
RefIsLiteral(k) == k \in {"ref=7", "ref=0", "ref=max", "ref=07", "ref=strkey", "ref=strkeycmt"}     \* "ref" = 7: the key written as a string literal
RefUnspecified(k) == k \in {"ref=hex", "ref=suffixed"}      \* outside what C13 pins down: predicted "any"
RefOnlyUntouched(k) == k \in {"ref=neg"}                     \* not a "simple" value: must be left alone, report unspecified

MsgHasRef(m) == m \in {"validref", "validref0", "validrefmax"}
MsgRefValue(m) == CASE m = "validref" -> 5 [] m = "validref0" -> 0 [] m = "validrefmax" -> 99 [] OTHER -> NoRef

Stmt == [head : Heads, target : Targets, kvs : UNION {[1..n -> KvShapes] : n \in 0..MaxKv}, msg : MsgClasses,
         dir : Dirs, trailing : Trailings, layout : Layouts, context : Contexts]

WellFormed(s) ==
  /\ Cardinality({i \in 1..Len(s.kvs) : IsRefShape(s.kvs[i])}) <= 1          \* at most one `ref` key
  /\ (s.head \notin RealHeads) => (s.dir = "none")

-----------------------------------------------------------------------------
(* Breadlog's reading of the statement *)
IsStatement(s) == s.head \in RealHeads
Structured(s, mode) == mode = "structured" /\ s.dir # "nokvp"
RefIdx(kvs) == IF \E i \in 1..Len(kvs) : IsRefShape(kvs[i])
               THEN CHOOSE i \in 1..Len(kvs) : IsRefShape(kvs[i]) ELSE 0

(* the log crate takes any expression as target; the canonical form of C10 has a string literal.  A statement with
   another target expression may be recognised or not, but whatever is done to it must keep it compiling (C09) *)
ExprTargets == {"const", "macrocall", "concat", "fmtexpr"}

Outcome(s, mode) ==
  IF ~IsStatement(s) THEN "none"
  ELSE IF s.dir = "ignore" THEN "ignored"
  ELSE IF s.target \in ExprTargets THEN "any"
  ELSE IF ~Structured(s, mode) /\ \E i \in 1..Len(s.kvs) : RefOnlyUntouched(s.kvs[i]) THEN "any"   \* not a simple key-value
  ELSE IF Structured(s, mode)
    THEN IF RefIdx(s.kvs) = 0 THEN "missing"
         ELSE IF RefUnspecified(s.kvs[RefIdx(s.kvs)]) THEN "any"
         ELSE IF RefOnlyUntouched(s.kvs[RefIdx(s.kvs)]) THEN "untouched"
         ELSE IF RefIsLiteral(s.kvs[RefIdx(s.kvs)]) THEN "hasref" ELSE "unusable"
    ELSE IF MsgHasRef(s.msg) THEN "hasref" ELSE "missing"

RefOf(s, mode) ==
  IF Outcome(s, mode) # "hasref" THEN NoRef
  ELSE IF Structured(s, mode) THEN RefLiteralValue(s.kvs[RefIdx(s.kvs)]) ELSE MsgRefValue(s.msg)

(* where a missing reference goes, and how it is terminated *)
Place(s, mode) ==
  IF Outcome(s, mode) # "missing" THEN "nowhere"
  ELSE IF Structured(s, mode)
    THEN (IF V_InsertPoint = "after_target" THEN "after_target_before_kvs" ELSE "args_start")
    ELSE "message_start"
Separator(s, mode) == IF Structured(s, mode) THEN (IF Len(s.kvs) > 0 THEN "," ELSE ";") ELSE "msg"

(* The effect of an edit run on the statement is recorded in `ins`: where the tool wrote its token.
     "none"            nothing inserted
     "msg"             `[ref: id] ` at the first character of the message literal
     "kv"              `ref = id` + separator after any target and before all key-values
     "kv_args_start"   `ref = id` + separator right after the opening parenthesis (as found): BEFORE a target *)
Edit(s, ins, mode) ==
  IF ins # "none" \/ Outcome(s, mode) # "missing" THEN ins
  ELSE IF Structured(s, mode)
    THEN (IF V_InsertPoint = "args_start" THEN "kv_args_start" ELSE "kv")
    ELSE "msg"

(* reading back what the tool wrote *)
RefBeforeTarget(s, ins) == ins = "kv_args_start" /\ s.target # "none"
OutcomeAfter(s, ins, mode) ==
  IF ~IsStatement(s) THEN "none"
  ELSE IF s.dir = "ignore" THEN "ignored"
  ELSE IF RefBeforeTarget(s, ins) THEN "notrecognised"       \* `(ref = 1; target: "t", "m")` is not a log statement any more
  ELSE IF Structured(s, mode)
    THEN IF ins \in {"kv", "kv_args_start"} THEN "hasref" ELSE Outcome(s, mode)
    ELSE IF ins = "msg" THEN "hasref" ELSE Outcome(s, mode)

-----------------------------------------------------------------------------
(* The log crate's macro grammar (log 0.4, macros.rs): `target: expr,` first, then key-values
   `key [:modifier] [= value]` separated by `,` and closed by `;`, then the format string and its arguments.
   Duplicate keys are accepted; a key-value before the target is not. *)
Accepts(s, ins) == ~RefBeforeTarget(s, ins)

(* the record emitted, apart from the reference: the statement's own features (an insertion adds the reference
   and nothing else, by construction of `ins`); the reference it carries: *)
CarriedRef(s, ins, mode) ==
  IF ins = "msg" THEN [where |-> "message_prefix", id |-> NewId]
  ELSE IF ins \in {"kv", "kv_args_start"} THEN [where |-> "key_value", id |-> NewId]
  ELSE [where |-> "unchanged", id |-> RefOf(s, mode)]

-----------------------------------------------------------------------------
VARIABLES s, ins, mode, step
vars == <<s, ins, mode, step>>

Init == /\ mode \in Modes
        /\ s \in {x \in Stmt : WellFormed(x)}
        /\ ins = "none"
        /\ step = 0

(* check -> edit -> check -> edit : the two edit steps *)
Next == /\ step < 2
        /\ step' = step + 1
        /\ ins' = IF OutcomeAfter(s, ins, mode) = "missing" THEN Edit(s, "none", mode) ELSE ins
        /\ UNCHANGED <<mode, s>>
Spec == Init /\ [][Next]_vars

(* C06: what was missing is recognised with its reference after the edit; the second edit changes nothing *)
RoundTrip == (step >= 1 /\ Outcome(s, mode) = "missing") => OutcomeAfter(s, ins, mode) = "hasref"
Idempotent == [][step = 1 => ins' = ins]_vars
(* C09: still accepted by the log crate *)
StillAccepted == Accepts(s, ins)
CarriesRefAfterEdit == (step >= 1 /\ Outcome(s, mode) = "missing") => CarriedRef(s, ins, mode).id = NewId
(* C11 / C13 / C14: decoys, ignored, referenced and unusable statements are never edited *)
OthersUntouched == (Outcome(s, mode) \in {"none", "ignored", "hasref", "unusable", "untouched"}) => ins = "none"
(* C13: never a second `ref` key *)
SingleRef == (ins \in {"kv", "kv_args_start"}) => RefIdx(s.kvs) = 0
(* C13: terminator *)
SeparatorRule == (Structured(s, mode) /\ Outcome(s, mode) = "missing") =>
                   (Separator(s, mode) = ";" <=> Len(s.kvs) = 0)

(* replay input: one line per case *)
Dump == step = 0 => PrintT("CASE|" \o ToJson([s |-> s, mode |-> mode, outcome |-> Outcome(s, mode), place |-> Place(s, mode),
                                                sep |-> Separator(s, mode), ref |-> RefOf(s, mode)]))
=============================================================================
