------------------------------- MODULE Hostile -------------------------------
(***************************************************************************)
(* C17 (and the C03/C05 monitors on malformed input): file contents as      *)
(* sequences over a TOKEN ALPHABET of the things that break text tools.      *)
(* The alphabet is chosen from the code's own slicing, arithmetic and        *)
(* grammar sites (byte-offset slicing in the directive scan, the u32 parse   *)
(* of references, string / comment termination in the grammar, implicit      *)
(* whitespace, the line/column computation).                                 *)
(*                                                                         *)
(* The specification of the outcome is deliberately weak - it is all the    *)
(* property says about arbitrary input:                                      *)
(*   - both modes terminate normally (no panic, no abort, no hang);          *)
(*   - an edit only inserts reference tokens (C03);                          *)
(*   - what check reports is what edit does (C05);                           *)
(*   - a file that is not valid UTF-8 is skipped, the others are processed.  *)
(* TLC enumerates every sequence up to the length bound; the replay writes  *)
(* each as its own file.                                                     *)
(***************************************************************************)
EXTENDS Integers, Sequences, FiniteSets, TLC, Json

CONSTANTS Tokens, MaxLen, Tails     \* Tails: how the file ends ("nl", "none")

Files == UNION {[1..n -> Tokens] : n \in 0..MaxLen}

VARIABLES f, tail
Init == f \in Files /\ tail \in Tails
Next == UNCHANGED <<f, tail>>
Spec == Init /\ [][Next]_<<f, tail>>

(* classes of outcome; everything else is forbidden *)
AllowedExits == {"zero", "nonzero"}
(* structural facts the replay relies on: a file is "has_statement" if it contains a complete canonical statement token
   that is not preceded by an opener that swallows it; the replay does not need this - it is recorded for the evidence *)
HasStmtToken(s) == \E i \in 1..Len(s) : s[i] \in {"stmt", "stmt_ref", "mb_stmt", "stmt_target", "stmt_kv"}

Dump == PrintT("HOST|" \o ToJson([f |-> f, tail |-> tail, has_stmt |-> HasStmtToken(f)]))
=============================================================================
