------------------------------- MODULE Props -------------------------------
(***************************************************************************)
(* The run-level properties of Breadlog (C01, C02, C04-C08, C16, C18) as  *)
(* operators over the ABSTRACT state.  There is one definition of each    *)
(* property; it is used                                                    *)
(*   - as an invariant of the design model (BreadlogRun.tla), checked by   *)
(*     TLC over every reachable state, and                                 *)
(*   - by the property-level trace specification (Observe.tla), which      *)
(*     evaluates it on the state projected from recorded executions of     *)
(*     the real binary.                                                    *)
(*                                                                         *)
(* Abstract state.  A tree maps file identifiers to sequences of slots;    *)
(* a slot is one log statement:                                            *)
(*     [uid  : a unique statement identity (survives edits),               *)
(*      ref  : NoRef or the reference ID it carries,                       *)
(*      kind : "plain" (recognised, usable), "unusable" (structured `ref`  *)
(*             key with a non-literal value), "ignored" (breadlog:ignore)] *)
(* The lock is LAbsent, LCorrupt or the recorded next ID.                  *)
(***************************************************************************)
EXTENDS Integers, Sequences, FiniteSets

NoRef    == -1
LAbsent  == -2
LCorrupt == -1

Missing(s)    == s.kind = "plain" /\ s.ref = NoRef
Recognised(s) == s.kind = "plain" /\ s.ref # NoRef

SlotsOf(tree) == UNION {{tree[f][j] : j \in DOMAIN tree[f]} : f \in DOMAIN tree}
RefsOf(tree)  == {s.ref : s \in {t \in SlotsOf(tree) : Recognised(t)}}
MissingUids(tree) == {s.uid : s \in {t \in SlotsOf(tree) : Missing(t)}}
NumMissingIn(seq) == Cardinality({j \in DOMAIN seq : Missing(seq[j])})
AnyMissing(tree) == \E s \in SlotsOf(tree) : Missing(s)

(* <<id, uid>> pairs that exist in post on a statement that lacked a reference in pre.  (Written with set membership
   instead of nested quantifiers over pairs of statements so that trees with thousands of statements stay cheap for TLC;
   uids are unique within a tree.) *)
NewPairs(pre, post) ==
  LET preMissing == {u.uid : u \in {t \in SlotsOf(pre) : Missing(t)}} IN
  {<<t.ref, t.uid>> : t \in {x \in SlotsOf(post) : x.kind = "plain" /\ x.ref # NoRef /\ x.uid \in preMissing}}

Ids(pairs) == {pr[1] : pr \in pairs}

(* statements that existed before and after must keep kind and (if they had one) reference *)
ExistingKept(pre, post) ==
  LET postU == {x.uid : x \in SlotsOf(post)}
      postT == {<<x.uid, x.ref, x.kind>> : x \in SlotsOf(post)} IN
  \A u \in SlotsOf(pre) : (~Missing(u) /\ u.uid \in postU) => <<u.uid, u.ref, u.kind>> \in postT

-----------------------------------------------------------------------------
(* C01 *)
(* IDs start at 1: a recorded next ID of 0 is not a usable lock value (it is ignored like an unparsable one) *)
UsableLock(l) == l >= 1
LockOK(pre, preLock, cacheUsed) ==
  \/ ~cacheUsed
  \/ ~UsableLock(preLock)
  \/ \A r \in RefsOf(pre) : preLock > r

NoLockUsed(preLock, cacheUsed) == ~cacheUsed \/ ~UsableLock(preLock)

UniqueInRange(pre, post, preLock, cacheUsed, maxId) ==
  LockOK(pre, preLock, cacheUsed) =>
    LET new == NewPairs(pre, post)  ids == Ids(new) IN
    /\ Cardinality(ids) = Cardinality(new)                 \* pairwise different
    /\ ids \subseteq 1..maxId                              \* documented range, no wrap-around
    /\ ids \cap RefsOf(pre) = {}                           \* different from every existing ID
    /\ NoLockUsed(preLock, cacheUsed) => \A x \in ids : \A r \in RefsOf(pre) : x > r

-----------------------------------------------------------------------------
(* C02 *)
LockDominates(lock, written) ==
  written # {} => (lock >= 0 /\ \A w \in written : lock > w[1])

NoReuse(written) == \A a, b \in written : a[1] = b[1] => a[2] = b[2]

-----------------------------------------------------------------------------
(* C05 / C06 / C08 on the outcome of a run.  exit: 0, or any other value *)
VerdictExact(tree, exit, anyReadable) ==
  anyReadable => ((exit # 0) <=> AnyMissing(tree))

ExitZeroMeansDone(post, exit) == exit = 0 => ~AnyMissing(post)

=============================================================================
