#!/bin/sh
# Build the framework from files on disk only (offline): interposer, breadlog binary, spec syntax check.
set -e
cd "$(dirname "$0")"
export CARGO_NET_OFFLINE=true
python3 harness/setup.py
