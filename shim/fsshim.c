/*
 * fsshim - LD_PRELOAD interposer used by the Breadlog verification harness.
 *
 * It records every filesystem operation the program performs on "tracked" paths (prefixes listed in
 * FSSHIM_ROOTS) and every write to stdout/stderr as one JSON line per operation in FSSHIM_LOG, with
 * a global sequence number taken under a mutex, and it executes a fault plan (FSSHIM_PLAN):
 *
 *   plan    := entry { ';' entry }
 *   entry   := selector ':' action
 *   selector:= 'at=' N                       the N-th counted operation (1-based)
 *            | 'op=' NAME [',path=' SUFFIX] [',nth=' N]   the N-th operation NAME whose path ends
 *                                            with SUFFIX (nth=0: every one)
 *   action  := 'errno=' E        do not perform the operation, return -1 with errno E
 *            | 'kill_before'     SIGKILL the process before the operation
 *            | 'kill_after'      perform the operation, then SIGKILL
 *            | 'signal=' S       raise(S) before the operation, then perform it
 *            | 'short=' B        (write only) write only the first B bytes and report B
 *
 * "Counted" operations are the operations on tracked paths / descriptors; they are numbered 1..K
 * in the order in which they are issued, which is deterministic for a given input tree because
 * Breadlog awaits every operation before issuing the next one.
 *
 * Everything is logged with raw write(2) on a private descriptor so that the log itself is never
 * subject to the interposition.
 */
#define _GNU_SOURCE
#include <dlfcn.h>
#include <errno.h>
#include <fcntl.h>
#include <pthread.h>
#include <signal.h>
#include <stdarg.h>
#include <stdint.h>
#include <stdio.h>
#include <stdlib.h>
#include <string.h>
#include <sys/stat.h>
#include <sys/syscall.h>
#include <sys/types.h>
#include <sys/uio.h>
#include <dirent.h>
#include <unistd.h>

#define MAXFD 4096
#define MAXPLAN 64
#define MAXROOTS 16

static pthread_mutex_t mu = PTHREAD_MUTEX_INITIALIZER;
static int logfd = -1;
static long seqno = 0;
static long kcount = 0;
static int inited = 0;

static char *roots[MAXROOTS];
static int nroots = 0;

struct fdinfo
{
    int tracked;
    char path[1024];
    uint64_t cum;
    uint64_t hash;
};
static struct fdinfo fds[MAXFD];

enum act
{
    A_ERRNO = 1,
    A_KILL_BEFORE,
    A_KILL_AFTER,
    A_SIGNAL,
    A_SHORT,
    A_SIGDELAY /* sleep arg milliseconds before the operation, once a planned signal has been raised */
};
static int signalled = 0;
struct plan
{
    long at;        /* >0: counted index */
    char op[32];    /* semantic selector */
    char path[256]; /* suffix */
    long nth;       /* 0 = every */
    long seen;
    enum act action;
    long arg;
};
static struct plan plans[MAXPLAN];
static int nplans = 0;

/* ------------------------------------------------------------------------------------------- */

static void raw_write(int fd, const char *buf, size_t n)
{
    while (n > 0)
    {
        long r = syscall(SYS_write, fd, buf, n);
        if (r <= 0)
            return;
        buf += r;
        n -= (size_t)r;
    }
}

static void parse_plan(const char *s)
{
    char *copy = strdup(s);
    char *save1 = NULL;
    for (char *ent = strtok_r(copy, ";", &save1); ent && nplans < MAXPLAN; ent = strtok_r(NULL, ";", &save1))
    {
        struct plan *p = &plans[nplans];
        memset(p, 0, sizeof(*p));
        p->nth = 1;
        char *colon = strrchr(ent, ':');
        if (!colon)
            continue;
        *colon = 0;
        char *action = colon + 1;
        char *save2 = NULL;
        for (char *kv = strtok_r(ent, ",", &save2); kv; kv = strtok_r(NULL, ",", &save2))
        {
            if (!strncmp(kv, "at=", 3))
                p->at = atol(kv + 3);
            else if (!strncmp(kv, "op=", 3))
                strncpy(p->op, kv + 3, sizeof(p->op) - 1);
            else if (!strncmp(kv, "path=", 5))
                strncpy(p->path, kv + 5, sizeof(p->path) - 1);
            else if (!strncmp(kv, "nth=", 4))
                p->nth = atol(kv + 4);
        }
        if (!strncmp(action, "errno=", 6))
        {
            p->action = A_ERRNO;
            p->arg = atol(action + 6);
        }
        else if (!strcmp(action, "kill_before"))
            p->action = A_KILL_BEFORE;
        else if (!strcmp(action, "kill_after"))
            p->action = A_KILL_AFTER;
        else if (!strncmp(action, "signal=", 7))
        {
            p->action = A_SIGNAL;
            p->arg = atol(action + 7);
        }
        else if (!strncmp(action, "short=", 6))
        {
            p->action = A_SHORT;
            p->arg = atol(action + 6);
        }
        else if (!strncmp(action, "sigdelay=", 9))
        {
            p->action = A_SIGDELAY;
            p->arg = atol(action + 9);
        }
        else
            continue;
        nplans++;
    }
    free(copy);
}

static void init_once(void)
{
    if (inited)
        return;
    inited = 1;
    const char *lp = getenv("FSSHIM_LOG");
    if (lp)
        logfd = (int)syscall(SYS_open, lp, O_WRONLY | O_CREAT | O_APPEND | O_CLOEXEC, 0644);
    if (logfd >= 0 && logfd < 200)
    {
        /* move the log descriptor out of the way so that the program's descriptor numbers are the
         * ones it would have had without the shim */
        int nfd = (int)syscall(SYS_fcntl, logfd, F_DUPFD_CLOEXEC, 1000);
        if (nfd >= 0)
        {
            syscall(SYS_close, logfd);
            logfd = nfd;
        }
    }
    const char *r = getenv("FSSHIM_ROOTS");
    if (r)
    {
        char *copy = strdup(r);
        char *save = NULL;
        for (char *t = strtok_r(copy, ":", &save); t && nroots < MAXROOTS; t = strtok_r(NULL, ":", &save))
            roots[nroots++] = strdup(t);
        free(copy);
    }
    const char *pl = getenv("FSSHIM_PLAN");
    if (pl && *pl)
        parse_plan(pl);
}

__attribute__((constructor)) static void ctor(void)
{
    pthread_mutex_lock(&mu);
    init_once();
    pthread_mutex_unlock(&mu);
}

static void abspath(int dirfd, const char *path, char *out, size_t n)
{
    if (!path)
    {
        out[0] = 0;
        return;
    }
    if (path[0] == '/')
    {
        snprintf(out, n, "%s", path);
        return;
    }
    if (dirfd != AT_FDCWD && dirfd >= 0 && dirfd < MAXFD && fds[dirfd].path[0])
    {
        if (path[0] == 0)
            snprintf(out, n, "%s", fds[dirfd].path);
        else
            snprintf(out, n, "%s/%s", fds[dirfd].path, path);
        return;
    }
    char cwd[400];
    if (syscall(SYS_getcwd, cwd, sizeof(cwd)) < 0)
        cwd[0] = 0;
    snprintf(out, n, "%s/%s", cwd, path);
}

static int is_tracked_path(const char *abs)
{
    for (int i = 0; i < nroots; i++)
    {
        size_t l = strlen(roots[i]);
        if (!strncmp(abs, roots[i], l) && (abs[l] == 0 || abs[l] == '/'))
            return 1;
    }
    return 0;
}

static int fd_tracked(int fd)
{
    return fd >= 0 && fd < MAXFD && fds[fd].tracked;
}

static size_t json_escape(char *dst, size_t cap, const char *src, size_t n)
{
    size_t o = 0;
    for (size_t i = 0; i < n && o + 8 < cap; i++)
    {
        unsigned char c = (unsigned char)src[i];
        if (c == '"' || c == '\\')
        {
            dst[o++] = '\\';
            dst[o++] = (char)c;
        }
        else if (c == '\n')
        {
            dst[o++] = '\\';
            dst[o++] = 'n';
        }
        else if (c < 0x20 || c >= 0x7f)
        {
            o += (size_t)snprintf(dst + o, cap - o, "\\u%04x", c);
        }
        else
            dst[o++] = (char)c;
    }
    dst[o] = 0;
    return o;
}

/* Emit one log record. */
static void emit(long k, const char *op, const char *path, const char *path2, int fd, long n, long ret, int err,
                 long flags, uint64_t cum, uint64_t hash, const char *data, size_t datalen, const char *fault)
{
    if (logfd < 0)
        return;
    static char buf[16384];
    static char e1[1400], e2[1400], ed[8192];
    e1[0] = e2[0] = ed[0] = 0;
    if (path)
        json_escape(e1, sizeof(e1), path, strlen(path));
    if (path2)
        json_escape(e2, sizeof(e2), path2, strlen(path2));
    if (data)
        json_escape(ed, sizeof(ed), data, datalen > 1200 ? 1200 : datalen);
    int len = snprintf(buf, sizeof(buf),
                       "{\"seq\":%ld,\"k\":%ld,\"op\":\"%s\",\"path\":\"%s\",\"path2\":\"%s\",\"fd\":%d,\"n\":%ld,"
                       "\"ret\":%ld,\"err\":%d,\"flags\":%ld,\"cum\":%llu,\"hash\":\"%016llx\",\"data\":\"%s\","
                       "\"fault\":\"%s\",\"tid\":%ld}\n",
                       ++seqno, k, op, e1, e2, fd, n, ret, err, flags, (unsigned long long)cum,
                       (unsigned long long)hash, ed, fault ? fault : "", (long)syscall(SYS_gettid));
    if (len > 0)
        raw_write(logfd, buf, (size_t)len);
}

/* Decide what the plan says about this counted operation. Returns the plan entry or NULL. */
static struct plan *match_plan(long k, const char *op, const char *path)
{
    struct plan *hit = NULL;
    for (int i = 0; i < nplans; i++)
    {
        struct plan *p = &plans[i];
        if (p->at > 0)
        {
            if (p->at == k && !hit)
                hit = p;
            continue;
        }
        if (p->op[0] && strcmp(p->op, op))
            continue;
        if (p->path[0])
        {
            size_t lp = strlen(p->path), l = path ? strlen(path) : 0;
            if (l < lp || strcmp(path + l - lp, p->path))
                continue;
        }
        p->seen++;
        if ((p->nth == 0 || p->seen == p->nth) && !hit)
            hit = p;
    }
    return hit;
}

static void die_now(void)
{
    syscall(SYS_kill, (long)syscall(SYS_getpid), SIGKILL);
    for (;;)
        syscall(SYS_pause);
}

/*
 * Pre-operation hook for a counted operation. Returns:
 *   0  perform the operation normally
 *   >0 fail the operation with this errno
 * and sets *after_kill if the process must die after the operation, *shortn for short writes.
 */
static int pre_op(long *k_out, const char *op, const char *path, int *after_kill, long *shortn)
{
    long k = ++kcount;
    *k_out = k;
    *after_kill = 0;
    *shortn = -1;
    struct plan *p = match_plan(k, op, path);
    if (!p)
        return 0;
    switch (p->action)
    {
    case A_ERRNO:
        return (int)p->arg;
    case A_KILL_BEFORE:
        emit(k, "kill_before", path, NULL, -1, 0, 0, 0, 0, 0, 0, NULL, 0, op);
        die_now();
        return 0;
    case A_KILL_AFTER:
        *after_kill = 1;
        return 0;
    case A_SIGNAL:
        emit(k, "signal", path, NULL, -1, p->arg, 0, 0, 0, 0, 0, NULL, 0, op);
        pthread_mutex_unlock(&mu);
        raise((int)p->arg);
        pthread_mutex_lock(&mu);
        signalled = 1;
        return 0;
    case A_SIGDELAY:
        if (signalled)
        {
            pthread_mutex_unlock(&mu);
            usleep((useconds_t)p->arg * 1000);
            pthread_mutex_lock(&mu);
        }
        return 0;
    case A_SHORT:
        *shortn = p->arg;
        return 0;
    }
    return 0;
}

static void post_kill(long k, const char *op, const char *path)
{
    emit(k, "kill_after", path, NULL, -1, 0, 0, 0, 0, 0, 0, NULL, 0, op);
    die_now();
}

static uint64_t fnv(uint64_t h, const void *buf, size_t n)
{
    const unsigned char *p = buf;
    for (size_t i = 0; i < n; i++)
    {
        h ^= p[i];
        h *= 1099511628211ULL;
    }
    return h;
}
#define FNV_INIT 14695981039346656037ULL

#define REAL(name) \
    static __typeof__(name) *real = NULL; \
    if (!real) \
        real = dlsym(RTLD_NEXT, #name);

/* ------------------------------------------------------------------------------------------- */
/* directory entries: one counted operation per entry handed out (and one for the end of the directory), so that a
 * plan can place a signal or a failure in the middle of source discovery. path = the directory, path2 = the entry. */

#define READDIR_BODY(dirent_t, realfn) \
    pthread_mutex_lock(&mu); \
    init_once(); \
    int fd = d ? dirfd(d) : -1; \
    if (fd < 0 || fd >= MAXFD || !fds[fd].tracked) \
    { \
        pthread_mutex_unlock(&mu); \
        return realfn(d); \
    } \
    const char *dp = fds[fd].path; \
    long k; \
    int ak; \
    long sn; \
    int e = pre_op(&k, "readdir", dp, &ak, &sn); \
    if (e) \
    { \
        emit(k, "readdir", dp, NULL, fd, 0, -1, e, 0, 0, 0, NULL, 0, "errno"); \
        pthread_mutex_unlock(&mu); \
        errno = e; \
        return NULL; \
    } \
    errno = 0; \
    dirent_t *ent = realfn(d); \
    int se = errno; \
    while (ent && (!strcmp(ent->d_name, ".") || !strcmp(ent->d_name, ".."))) \
    { \
        errno = 0; \
        ent = realfn(d); \
        se = errno; \
    } \
    emit(k, "readdir", dp, ent ? ent->d_name : NULL, fd, 0, ent ? 1 : (se ? -1 : 0), ent ? 0 : se, 0, 0, 0, NULL, 0, NULL); \
    if (ak) \
        post_kill(k, "readdir", dp); \
    pthread_mutex_unlock(&mu); \
    errno = se; \
    return ent;

struct dirent *readdir(DIR *d)
{
    REAL(readdir);
    READDIR_BODY(struct dirent, real)
}

struct dirent64 *readdir64(DIR *d)
{
    REAL(readdir64);
    READDIR_BODY(struct dirent64, real)
}

/* ------------------------------------------------------------------------------------------- */
/* open family */

static int do_open(const char *opname, int dirfd, const char *path, int flags, mode_t mode,
                   int (*call)(int, const char *, int, mode_t))
{
    char abs[1024];
    pthread_mutex_lock(&mu);
    init_once();
    abspath(dirfd, path, abs, sizeof(abs));
    int tracked = is_tracked_path(abs);
    if (!tracked)
    {
        pthread_mutex_unlock(&mu);
        int fd = call(dirfd, path, flags, mode);
        if (fd >= 0 && fd < MAXFD)
        {
            pthread_mutex_lock(&mu);
            fds[fd].tracked = 0;
            fds[fd].path[0] = 0;
            pthread_mutex_unlock(&mu);
        }
        return fd;
    }
    long k;
    int ak;
    long sn;
    int e = pre_op(&k, opname, abs, &ak, &sn);
    int fd;
    if (e)
    {
        fd = -1;
        errno = e;
        emit(k, opname, abs, NULL, -1, 0, -1, e, flags, 0, 0, NULL, 0, "errno");
        pthread_mutex_unlock(&mu);
        errno = e;
        return -1;
    }
    fd = call(dirfd, path, flags, mode);
    int se = errno;
    if (fd >= 0 && fd < MAXFD)
    {
        fds[fd].tracked = 1;
        snprintf(fds[fd].path, sizeof(fds[fd].path), "%s", abs);
        fds[fd].cum = 0;
        fds[fd].hash = FNV_INIT;
    }
    emit(k, opname, abs, NULL, fd, 0, fd, fd < 0 ? se : 0, flags, 0, 0, NULL, 0, NULL);
    if (ak)
        post_kill(k, opname, abs);
    pthread_mutex_unlock(&mu);
    errno = se;
    return fd;
}

static int call_open(int dirfd, const char *path, int flags, mode_t mode)
{
    (void)dirfd;
    static int (*real)(const char *, int, ...) = NULL;
    if (!real)
        real = dlsym(RTLD_NEXT, "open");
    return real(path, flags, mode);
}
static int call_open64(int dirfd, const char *path, int flags, mode_t mode)
{
    (void)dirfd;
    static int (*real)(const char *, int, ...) = NULL;
    if (!real)
        real = dlsym(RTLD_NEXT, "open64");
    return real(path, flags, mode);
}
static int call_openat(int dirfd, const char *path, int flags, mode_t mode)
{
    static int (*real)(int, const char *, int, ...) = NULL;
    if (!real)
        real = dlsym(RTLD_NEXT, "openat");
    return real(dirfd, path, flags, mode);
}
static int call_openat64(int dirfd, const char *path, int flags, mode_t mode)
{
    static int (*real)(int, const char *, int, ...) = NULL;
    if (!real)
        real = dlsym(RTLD_NEXT, "openat64");
    return real(dirfd, path, flags, mode);
}

static mode_t get_mode(int flags, va_list ap)
{
    if ((flags & O_CREAT) || (flags & O_TMPFILE) == O_TMPFILE)
        return (mode_t)va_arg(ap, int);
    return 0;
}

int open(const char *path, int flags, ...)
{
    va_list ap;
    va_start(ap, flags);
    mode_t m = get_mode(flags, ap);
    va_end(ap);
    return do_open("open", AT_FDCWD, path, flags, m, call_open);
}
int open64(const char *path, int flags, ...)
{
    va_list ap;
    va_start(ap, flags);
    mode_t m = get_mode(flags, ap);
    va_end(ap);
    return do_open("open", AT_FDCWD, path, flags, m, call_open64);
}
int openat(int dirfd, const char *path, int flags, ...)
{
    va_list ap;
    va_start(ap, flags);
    mode_t m = get_mode(flags, ap);
    va_end(ap);
    return do_open("open", dirfd, path, flags, m, call_openat);
}
int openat64(int dirfd, const char *path, int flags, ...)
{
    va_list ap;
    va_start(ap, flags);
    mode_t m = get_mode(flags, ap);
    va_end(ap);
    return do_open("open", dirfd, path, flags, m, call_openat64);
}
int creat(const char *path, mode_t mode)
{
    return do_open("open", AT_FDCWD, path, O_CREAT | O_WRONLY | O_TRUNC, mode, call_open);
}
int creat64(const char *path, mode_t mode)
{
    return do_open("open", AT_FDCWD, path, O_CREAT | O_WRONLY | O_TRUNC, mode, call_open64);
}

DIR *opendir(const char *name)
{
    REAL(opendir);
    char abs[1024];
    pthread_mutex_lock(&mu);
    init_once();
    abspath(AT_FDCWD, name, abs, sizeof(abs));
    if (!is_tracked_path(abs))
    {
        pthread_mutex_unlock(&mu);
        return real(name);
    }
    long k;
    int ak;
    long sn;
    int e = pre_op(&k, "opendir", abs, &ak, &sn);
    if (e)
    {
        emit(k, "opendir", abs, NULL, -1, 0, -1, e, 0, 0, 0, NULL, 0, "errno");
        pthread_mutex_unlock(&mu);
        errno = e;
        return NULL;
    }
    DIR *d = real(name);
    int se = errno;
    int fd = d ? dirfd(d) : -1;
    if (fd >= 0 && fd < MAXFD)
    {
        fds[fd].tracked = 1;
        snprintf(fds[fd].path, sizeof(fds[fd].path), "%s", abs);
    }
    emit(k, "opendir", abs, NULL, fd, 0, d ? 0 : -1, d ? 0 : se, 0, 0, 0, NULL, 0, NULL);
    if (ak)
        post_kill(k, "opendir", abs);
    pthread_mutex_unlock(&mu);
    errno = se;
    return d;
}

int close(int fd)
{
    REAL(close);
    pthread_mutex_lock(&mu);
    init_once();
    if (!fd_tracked(fd))
    {
        pthread_mutex_unlock(&mu);
        return real(fd);
    }
    /* close is logged but not counted as a fault point: its failure cannot be acted upon */
    int r = real(fd);
    int se = errno;
    emit(0, "close", fds[fd].path, NULL, fd, 0, r, r < 0 ? se : 0, 0, fds[fd].cum, fds[fd].hash, NULL, 0, NULL);
    fds[fd].tracked = 0;
    fds[fd].path[0] = 0;
    pthread_mutex_unlock(&mu);
    errno = se;
    return r;
}

/* ------------------------------------------------------------------------------------------- */
/* read / write */

ssize_t read(int fd, void *buf, size_t n)
{
    REAL(read);
    pthread_mutex_lock(&mu);
    init_once();
    if (!fd_tracked(fd))
    {
        pthread_mutex_unlock(&mu);
        return real(fd, buf, n);
    }
    long k;
    int ak;
    long sn;
    int e = pre_op(&k, "read", fds[fd].path, &ak, &sn);
    if (e)
    {
        emit(k, "read", fds[fd].path, NULL, fd, (long)n, -1, e, 0, 0, 0, NULL, 0, "errno");
        pthread_mutex_unlock(&mu);
        errno = e;
        return -1;
    }
    ssize_t r = real(fd, buf, n);
    int se = errno;
    emit(k, "read", fds[fd].path, NULL, fd, (long)n, r, r < 0 ? se : 0, 0, 0, 0, NULL, 0, NULL);
    if (ak)
        post_kill(k, "read", fds[fd].path);
    pthread_mutex_unlock(&mu);
    errno = se;
    return r;
}

static ssize_t do_write(const char *opname, int fd, const void *buf, size_t n, ssize_t (*call)(int, const void *, size_t))
{
    pthread_mutex_lock(&mu);
    init_once();
    if (fd == 1 || fd == 2)
    {
        ssize_t r = call(fd, buf, n);
        int se = errno;
        emit(0, "out", NULL, NULL, fd, (long)n, r, r < 0 ? se : 0, 0, 0, 0, buf, n, NULL);
        pthread_mutex_unlock(&mu);
        errno = se;
        return r;
    }
    if (!fd_tracked(fd))
    {
        pthread_mutex_unlock(&mu);
        return call(fd, buf, n);
    }
    long k;
    int ak;
    long sn;
    int e = pre_op(&k, "write", fds[fd].path, &ak, &sn);
    if (e)
    {
        emit(k, opname, fds[fd].path, NULL, fd, (long)n, -1, e, 0, fds[fd].cum, fds[fd].hash, NULL, 0, "errno");
        pthread_mutex_unlock(&mu);
        errno = e;
        return -1;
    }
    size_t want = n;
    if (sn >= 0 && (size_t)sn < n)
        want = (size_t)sn;
    ssize_t r = call(fd, buf, want);
    int se = errno;
    if (r > 0)
    {
        fds[fd].cum += (uint64_t)r;
        fds[fd].hash = fnv(fds[fd].hash, buf, (size_t)r);
    }
    emit(k, opname, fds[fd].path, NULL, fd, (long)n, r, r < 0 ? se : 0, 0, fds[fd].cum, fds[fd].hash, NULL, 0,
         sn >= 0 ? "short" : NULL);
    if (ak)
        post_kill(k, opname, fds[fd].path);
    pthread_mutex_unlock(&mu);
    errno = se;
    return r;
}

static ssize_t call_write(int fd, const void *buf, size_t n)
{
    REAL(write);
    return real(fd, buf, n);
}

ssize_t write(int fd, const void *buf, size_t n)
{
    return do_write("write", fd, buf, n, call_write);
}

ssize_t writev(int fd, const struct iovec *iov, int iovcnt)
{
    REAL(writev);
    /* flatten: Breadlog's use of writev is limited to stdout/stderr; tracked files get the same
     * treatment as write() */
    if (fd == 1 || fd == 2 || fd_tracked(fd))
    {
        size_t total = 0;
        for (int i = 0; i < iovcnt; i++)
            total += iov[i].iov_len;
        char *tmp = malloc(total ? total : 1);
        size_t o = 0;
        for (int i = 0; i < iovcnt; i++)
        {
            memcpy(tmp + o, iov[i].iov_base, iov[i].iov_len);
            o += iov[i].iov_len;
        }
        ssize_t r = do_write("write", fd, tmp, total, call_write);
        int se = errno;
        free(tmp);
        errno = se;
        return r;
    }
    return real(fd, iov, iovcnt);
}

ssize_t pwrite(int fd, const void *buf, size_t n, off_t off)
{
    REAL(pwrite);
    pthread_mutex_lock(&mu);
    init_once();
    if (!fd_tracked(fd))
    {
        pthread_mutex_unlock(&mu);
        return real(fd, buf, n, off);
    }
    long k;
    int ak;
    long sn;
    int e = pre_op(&k, "pwrite", fds[fd].path, &ak, &sn);
    if (e)
    {
        emit(k, "pwrite", fds[fd].path, NULL, fd, (long)n, -1, e, (long)off, 0, 0, NULL, 0, "errno");
        pthread_mutex_unlock(&mu);
        errno = e;
        return -1;
    }
    ssize_t r = real(fd, buf, n, off);
    int se = errno;
    emit(k, "pwrite", fds[fd].path, NULL, fd, (long)n, r, r < 0 ? se : 0, (long)off, 0, 0, NULL, 0, NULL);
    if (ak)
        post_kill(k, "pwrite", fds[fd].path);
    pthread_mutex_unlock(&mu);
    errno = se;
    return r;
}
ssize_t pwrite64(int fd, const void *buf, size_t n, off_t off)
{
    return pwrite(fd, buf, n, off);
}

/* ------------------------------------------------------------------------------------------- */
/* generic helpers for path operations */

#define PATH_OP1(opname, abs1, CALL) \
    do \
    { \
        pthread_mutex_lock(&mu); \
        init_once(); \
        if (!is_tracked_path(abs1)) \
        { \
            pthread_mutex_unlock(&mu); \
            return CALL; \
        } \
        long k; \
        int ak; \
        long sn; \
        int e = pre_op(&k, opname, abs1, &ak, &sn); \
        if (e) \
        { \
            emit(k, opname, abs1, NULL, -1, 0, -1, e, 0, 0, 0, NULL, 0, "errno"); \
            pthread_mutex_unlock(&mu); \
            errno = e; \
            return -1; \
        } \
        int r = CALL; \
        int se = errno; \
        emit(k, opname, abs1, NULL, -1, 0, r, r < 0 ? se : 0, 0, 0, 0, NULL, 0, NULL); \
        if (ak) \
            post_kill(k, opname, abs1); \
        pthread_mutex_unlock(&mu); \
        errno = se; \
        return r; \
    } while (0)

#define PATH_OP2(opname, abs1, abs2, CALL) \
    do \
    { \
        pthread_mutex_lock(&mu); \
        init_once(); \
        if (!is_tracked_path(abs1) && !is_tracked_path(abs2)) \
        { \
            pthread_mutex_unlock(&mu); \
            return CALL; \
        } \
        long k; \
        int ak; \
        long sn; \
        int e = pre_op(&k, opname, abs2, &ak, &sn); \
        if (e) \
        { \
            emit(k, opname, abs1, abs2, -1, 0, -1, e, 0, 0, 0, NULL, 0, "errno"); \
            pthread_mutex_unlock(&mu); \
            errno = e; \
            return -1; \
        } \
        int r = CALL; \
        int se = errno; \
        emit(k, opname, abs1, abs2, -1, 0, r, r < 0 ? se : 0, 0, 0, 0, NULL, 0, NULL); \
        if (ak) \
            post_kill(k, opname, abs2); \
        pthread_mutex_unlock(&mu); \
        errno = se; \
        return r; \
    } while (0)

/* A fixed process ID (FSSHIM_FAKEPID): successive runs of a history look like processes that were given the same PID
 * (PID namespaces of containers, wrap-around), so names derived from the PID collide across runs. */
pid_t getpid(void)
{
    const char *fp = getenv("FSSHIM_FAKEPID");
    if (fp && *fp)
        return (pid_t)atoi(fp);
    return (pid_t)syscall(SYS_getpid);
}

int rename(const char *a, const char *b)
{
    REAL(rename);
    char a1[1024], a2[1024];
    abspath(AT_FDCWD, a, a1, sizeof(a1));
    abspath(AT_FDCWD, b, a2, sizeof(a2));
    PATH_OP2("rename", a1, a2, real(a, b));
}
int renameat(int fa, const char *a, int fb, const char *b)
{
    REAL(renameat);
    char a1[1024], a2[1024];
    abspath(fa, a, a1, sizeof(a1));
    abspath(fb, b, a2, sizeof(a2));
    PATH_OP2("rename", a1, a2, real(fa, a, fb, b));
}
int renameat2(int fa, const char *a, int fb, const char *b, unsigned int fl)
{
    REAL(renameat2);
    char a1[1024], a2[1024];
    abspath(fa, a, a1, sizeof(a1));
    abspath(fb, b, a2, sizeof(a2));
    PATH_OP2("rename", a1, a2, real(fa, a, fb, b, fl));
}
int link(const char *a, const char *b)
{
    REAL(link);
    char a1[1024], a2[1024];
    abspath(AT_FDCWD, a, a1, sizeof(a1));
    abspath(AT_FDCWD, b, a2, sizeof(a2));
    PATH_OP2("link", a1, a2, real(a, b));
}
int linkat(int fa, const char *a, int fb, const char *b, int fl)
{
    REAL(linkat);
    char a1[1024], a2[1024];
    abspath(fa, a, a1, sizeof(a1));
    abspath(fb, b, a2, sizeof(a2));
    PATH_OP2("link", a1, a2, real(fa, a, fb, b, fl));
}
int symlink(const char *a, const char *b)
{
    REAL(symlink);
    char a1[1024], a2[1024];
    snprintf(a1, sizeof(a1), "%s", a);
    abspath(AT_FDCWD, b, a2, sizeof(a2));
    PATH_OP2("symlink", a1, a2, real(a, b));
}
int unlink(const char *a)
{
    REAL(unlink);
    char a1[1024];
    abspath(AT_FDCWD, a, a1, sizeof(a1));
    PATH_OP1("unlink", a1, real(a));
}
int unlinkat(int fa, const char *a, int fl)
{
    REAL(unlinkat);
    char a1[1024];
    abspath(fa, a, a1, sizeof(a1));
    PATH_OP1("unlink", a1, real(fa, a, fl));
}
int rmdir(const char *a)
{
    REAL(rmdir);
    char a1[1024];
    abspath(AT_FDCWD, a, a1, sizeof(a1));
    PATH_OP1("rmdir", a1, real(a));
}
int mkdir(const char *a, mode_t m)
{
    REAL(mkdir);
    char a1[1024];
    abspath(AT_FDCWD, a, a1, sizeof(a1));
    PATH_OP1("mkdir", a1, real(a, m));
}
int mkdirat(int fa, const char *a, mode_t m)
{
    REAL(mkdirat);
    char a1[1024];
    abspath(fa, a, a1, sizeof(a1));
    PATH_OP1("mkdir", a1, real(fa, a, m));
}
int truncate(const char *a, off_t l)
{
    REAL(truncate);
    char a1[1024];
    abspath(AT_FDCWD, a, a1, sizeof(a1));
    PATH_OP1("truncate", a1, real(a, l));
}
int truncate64(const char *a, off_t l)
{
    return truncate(a, l);
}
int chmod(const char *a, mode_t m)
{
    REAL(chmod);
    char a1[1024];
    abspath(AT_FDCWD, a, a1, sizeof(a1));
    PATH_OP1("chmod", a1, real(a, m));
}
int fchmodat(int fa, const char *a, mode_t m, int fl)
{
    REAL(fchmodat);
    char a1[1024];
    abspath(fa, a, a1, sizeof(a1));
    PATH_OP1("chmod", a1, real(fa, a, m, fl));
}
int chown(const char *a, uid_t u, gid_t g)
{
    REAL(chown);
    char a1[1024];
    abspath(AT_FDCWD, a, a1, sizeof(a1));
    PATH_OP1("chown", a1, real(a, u, g));
}
int utimensat(int fa, const char *a, const struct timespec t[2], int fl)
{
    REAL(utimensat);
    char a1[1024];
    abspath(fa, a, a1, sizeof(a1));
    PATH_OP1("utimens", a1, real(fa, a, t, fl));
}

/* descriptor operations that mutate */
#define FD_OP(opname, fd, CALL) \
    do \
    { \
        pthread_mutex_lock(&mu); \
        init_once(); \
        if (!fd_tracked(fd)) \
        { \
            pthread_mutex_unlock(&mu); \
            return CALL; \
        } \
        long k; \
        int ak; \
        long sn; \
        int e = pre_op(&k, opname, fds[fd].path, &ak, &sn); \
        if (e) \
        { \
            emit(k, opname, fds[fd].path, NULL, fd, 0, -1, e, 0, 0, 0, NULL, 0, "errno"); \
            pthread_mutex_unlock(&mu); \
            errno = e; \
            return -1; \
        } \
        int r = CALL; \
        int se = errno; \
        emit(k, opname, fds[fd].path, NULL, fd, 0, r, r < 0 ? se : 0, 0, fds[fd].cum, fds[fd].hash, NULL, 0, NULL); \
        if (ak) \
            post_kill(k, opname, fds[fd].path); \
        pthread_mutex_unlock(&mu); \
        errno = se; \
        return r; \
    } while (0)

int ftruncate(int fd, off_t l)
{
    REAL(ftruncate);
    FD_OP("ftruncate", fd, real(fd, l));
}
int ftruncate64(int fd, off_t l)
{
    return ftruncate(fd, l);
}
int fsync(int fd)
{
    REAL(fsync);
    FD_OP("fsync", fd, real(fd));
}
int fdatasync(int fd)
{
    REAL(fdatasync);
    FD_OP("fsync", fd, real(fd));
}
int fchmod(int fd, mode_t m)
{
    REAL(fchmod);
    FD_OP("chmod", fd, real(fd, m));
}
int futimens(int fd, const struct timespec t[2])
{
    REAL(futimens);
    FD_OP("utimens", fd, real(fd, t));
}

/* ------------------------------------------------------------------------------------------- */
/* stat family (read-only; counted so that faults and signals can be placed at them) */

int stat64(const char *a, struct stat64 *st)
{
    REAL(stat64);
    char a1[1024];
    abspath(AT_FDCWD, a, a1, sizeof(a1));
    PATH_OP1("stat", a1, real(a, st));
}
int lstat64(const char *a, struct stat64 *st)
{
    REAL(lstat64);
    char a1[1024];
    abspath(AT_FDCWD, a, a1, sizeof(a1));
    PATH_OP1("lstat", a1, real(a, st));
}
int stat(const char *a, struct stat *st)
{
    REAL(stat);
    char a1[1024];
    abspath(AT_FDCWD, a, a1, sizeof(a1));
    PATH_OP1("stat", a1, real(a, st));
}
int lstat(const char *a, struct stat *st)
{
    REAL(lstat);
    char a1[1024];
    abspath(AT_FDCWD, a, a1, sizeof(a1));
    PATH_OP1("lstat", a1, real(a, st));
}
int fstatat64(int fa, const char *a, struct stat64 *st, int fl)
{
    REAL(fstatat64);
    char a1[1024];
    if (a[0] == 0)
        return real(fa, a, st, fl);
    abspath(fa, a, a1, sizeof(a1));
    PATH_OP1((fl & AT_SYMLINK_NOFOLLOW) ? "lstat" : "stat", a1, real(fa, a, st, fl));
}
int fstatat(int fa, const char *a, struct stat *st, int fl)
{
    REAL(fstatat);
    char a1[1024];
    if (a[0] == 0)
        return real(fa, a, st, fl);
    abspath(fa, a, a1, sizeof(a1));
    PATH_OP1((fl & AT_SYMLINK_NOFOLLOW) ? "lstat" : "stat", a1, real(fa, a, st, fl));
}

/* Rust's std looks statx up with dlsym and otherwise issues it through syscall(2). */
struct statx;
int statx(int fa, const char *a, int fl, unsigned int mask, struct statx *st)
{
    static int (*real)(int, const char *, int, unsigned int, struct statx *) = NULL;
    if (!real)
        real = dlsym(RTLD_NEXT, "statx");
    char a1[1024];
    if (!a || a[0] == 0)
        return real(fa, a, fl, mask, st);
    abspath(fa, a, a1, sizeof(a1));
    PATH_OP1((fl & AT_SYMLINK_NOFOLLOW) ? "lstat" : "stat", a1, real(fa, a, fl, mask, st));
}

/* forward everything, intercept path-based statx. */
long syscall(long number, ...)
{
    static long (*real)(long, ...) = NULL;
    if (!real)
        real = dlsym(RTLD_NEXT, "syscall");
    va_list ap;
    va_start(ap, number);
    long a = va_arg(ap, long), b = va_arg(ap, long), c = va_arg(ap, long), d = va_arg(ap, long),
         e5 = va_arg(ap, long), f = va_arg(ap, long);
    va_end(ap);
#ifdef SYS_statx
    if (number == SYS_statx && b && ((const char *)b)[0] != 0)
    {
        char a1[1024];
        abspath((int)a, (const char *)b, a1, sizeof(a1));
        PATH_OP1((c & AT_SYMLINK_NOFOLLOW) ? "lstat" : "stat", a1, (int)real(number, a, b, c, d, e5, f));
    }
#endif
    return real(number, a, b, c, d, e5, f);
}
